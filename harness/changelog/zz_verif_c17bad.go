//go:build verif

package changelog

import (
	"bufio"
	"strings"
)

// VerifC17Malformed: a changelog with a malformed entry (an indented or missing header, a date that is no RFC 1123Z
// date) is answered with an error and no entries - never with a shortened list - and ParseOne gives an entry or an
// error, never both and never neither.
//
// n > 0: the malformation is one a lenient parser could read through (an indented header line): then the only wrong
// answer without an error is one with fewer than n entries.
func VerifC17Malformed(doc string, n int) int {
	e, err := ParseOne(bufio.NewReader(strings.NewReader(doc)))
	if err != nil && e != nil {
		return 1
	}
	if err == nil && e == nil {
		return 2
	}
	l, err := Parse(strings.NewReader(doc))
	if err == nil {
		if n > 0 && len(l) == n {
			return 0
		}
		return 3 // a malformed entry was passed over in silence
	}
	if len(l) != 0 {
		return 4
	}
	return 0
}

func init() { verifFuncs["VerifC17Malformed"] = VerifC17Malformed }
