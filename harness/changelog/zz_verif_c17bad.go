//go:build verif

package changelog

import (
	"bufio"
	"strings"
)

// VerifC17Malformed: a changelog with a malformed entry (an indented or missing header, a date that is no RFC 1123Z
// date) is answered with an error and no entries - never with a shortened list - and ParseOne gives an entry or an
// error, never both and never neither.
func VerifC17Malformed(doc string) int {
	e, err := ParseOne(bufio.NewReader(strings.NewReader(doc)))
	if err != nil && e != nil {
		return 1
	}
	if err == nil && e == nil {
		return 2
	}
	l, err := Parse(strings.NewReader(doc))
	if err == nil {
		return 3 // a malformed entry was passed over in silence
	}
	if len(l) != 0 {
		return 4
	}
	return 0
}

func init() { verifFuncs["VerifC17Malformed"] = VerifC17Malformed }
