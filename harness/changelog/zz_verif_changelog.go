//go:build verif

package changelog

// Harness code for the solver-based checks (injected by overlay; never part of /repo).

import (
	"strings"
	"time"
)

func dumpEntry(e *ChangelogEntry) string {
	out := "E" + e.Source + "\x00" + e.Version.String() + "\x00" + e.Target + "\x00"
	// arguments in a fixed order: at most two keys in the templates
	keys := []string{}
	for k := range e.Arguments {
		keys = append(keys, k)
	}
	for i := 0; i < len(keys); i++ {
		for j := i + 1; j < len(keys); j++ {
			if keys[j] < keys[i] {
				keys[i], keys[j] = keys[j], keys[i]
			}
		}
	}
	for _, k := range keys {
		out += k + "=" + e.Arguments[k] + "\x01"
	}
	return out + "\x00" + e.Changelog + "\x00" + e.ChangedBy + "\x00"
}

func sameInstant(a time.Time, text string) bool {
	want, err := time.Parse(whenLayout, text)
	if err != nil {
		return false
	}
	_, oa := a.Zone()
	_, ob := want.Zone()
	return a.Equal(want) && oa == ob
}

// VerifC17Full: a changelog made of n dpkg-format entries parses to exactly those entries, in order.
// expect holds the concatenated dumps, dates the date texts separated by "\x00".
func VerifC17Full(doc string, n int, expect, dates string) int {
	entries, err := Parse(strings.NewReader(doc))
	if err != nil {
		return 1
	}
	if len(entries) != n {
		return 2
	}
	got := ""
	for i := range entries {
		got += dumpEntry(&entries[i])
	}
	if got != expect {
		return 3
	}
	ds := strings.Split(dates, "\x00")
	for i := range entries {
		if !sameInstant(entries[i].When, ds[i]) {
			return 4
		}
	}
	return 0
}

// VerifC17Cut: the changelog cut short yields an error, or exactly the entries that lie wholly inside the prefix
// provided nothing but blank lines follows them (complete entries, their dumps in expect) - or, when the cut falls
// inside the last date (inDate), also that entry with whatever the date prefix parses to.  Never fewer entries
// without an error.
func VerifC17Cut(prefix string, complete int, partial, inDate bool, expect string) int {
	entries, err := Parse(strings.NewReader(prefix))
	if err != nil {
		if len(entries) != 0 {
			return 5
		}
		return 0
	}
	if len(entries) < complete {
		return 1
	}
	if len(entries) == complete && partial {
		return 2
	}
	if len(entries) > complete && !(inDate && len(entries) == complete+1) {
		return 3
	}
	got := ""
	for i := 0; i < complete; i++ {
		got += dumpEntry(&entries[i])
	}
	if got != expect {
		return 4
	}
	return 0
}

var verifFuncs = map[string]interface{}{
	"VerifC17Full": VerifC17Full,
	"VerifC17Cut":  VerifC17Cut,
}

// ---------------------------------------------------------------- C18

// VerifC18Changelog: Parse returns entries or an error (then no entries), ParseOne a value or an error, and the
// outcome is the same when called again.
func VerifC18Changelog(s string) int {
	l1, e1 := Parse(strings.NewReader(s))
	if e1 != nil && len(l1) != 0 {
		return 1
	}
	l2, e2 := Parse(strings.NewReader(s))
	if (e1 == nil) != (e2 == nil) || len(l1) != len(l2) {
		return 2
	}
	for i := range l1 {
		if dumpEntry(&l1[i]) != dumpEntry(&l2[i]) {
			return 3
		}
	}
	return 0
}

func init() { verifFuncs["VerifC18Changelog"] = VerifC18Changelog }
