//go:build verif

package version

import "sort"

func verifSort(s Slice) { sort.Sort(s) }
