//go:build verif

package version

import "strconv"

// VerifSelfAtoi: the engine's contract model of strconv.Atoi against the real strconv.ParseInt, executed from its
// SSA (tools/selftest.py runs this over every byte string up to a bound; it belongs to no property).
func VerifSelfAtoi(s string) int {
	a, e1 := strconv.Atoi(s)
	b, e2 := strconv.ParseInt(s, 10, 0)
	if (e1 == nil) != (e2 == nil) {
		return 1
	}
	if e1 == nil && int64(a) != b {
		return 2
	}
	if e1 != nil && a != 0 {
		return 3
	}
	return 0
}

func init() { verifFuncs["VerifSelfAtoi"] = VerifSelfAtoi }
