//go:build verif

package version

// Harness code for the solver-based checks (injected by overlay; never part of /repo).

// specOrder is the Policy 5.6.12 character weight written independently of order():
// '~' sorts before everything, end of string (0) next, then letters by ASCII, then everything else.
func specWeight(has bool, c byte) int {
	if !has {
		return 0
	}
	if c == '~' {
		return -1
	}
	if c >= '0' && c <= '9' {
		return 0
	}
	if (c >= 'a' && c <= 'z') || (c >= 'A' && c <= 'Z') {
		return int(c)
	}
	return int(c) + 256
}

func specIsDigit(c byte) bool { return c >= '0' && c <= '9' }

// specCmp is the dpkg algorithm (lib/dpkg/version.c, verrevcmp) in the
// "strip zeros, longer digit run wins, else first difference" formulation (S2).
// It returns -1, 0, 1.
func specCmp(a, b string) int {
	i, j := 0, 0
	for i < len(a) || j < len(b) {
		// non-digit prefix
		for (i < len(a) && !specIsDigit(a[i])) || (j < len(b) && !specIsDigit(b[j])) {
			var wa, wb int
			if i < len(a) {
				wa = specWeight(true, a[i])
			}
			if j < len(b) {
				wb = specWeight(true, b[j])
			}
			if wa < wb {
				return -1
			}
			if wa > wb {
				return 1
			}
			i++
			j++
		}
		// digit runs
		si := i
		for si < len(a) && a[si] == '0' {
			si++
		}
		sj := j
		for sj < len(b) && b[sj] == '0' {
			sj++
		}
		ei := si
		for ei < len(a) && specIsDigit(a[ei]) {
			ei++
		}
		ej := sj
		for ej < len(b) && specIsDigit(b[ej]) {
			ej++
		}
		if ei-si > ej-sj {
			return 1
		}
		if ei-si < ej-sj {
			return -1
		}
		for k := 0; k < ei-si; k++ {
			if a[si+k] < b[sj+k] {
				return -1
			}
			if a[si+k] > b[sj+k] {
				return 1
			}
		}
		i, j = ei, ej
	}
	return 0
}

func sign(x int) int {
	if x < 0 {
		return -1
	}
	if x > 0 {
		return 1
	}
	return 0
}

// VerifC01Rev: sign(verrevcmp(a,b)) == specCmp(a,b).  0 = holds.
func VerifC01Rev(a, b string) int {
	if sign(verrevcmp(a, b)) != specCmp(a, b) {
		return 1
	}
	return 0
}

// VerifSpecCmp exposes the reference comparison (for validating the SMT formulation of the same algorithm).
func VerifSpecCmp(a, b string) int { return specCmp(a, b) }

func specCompare(ea uint, ua, ra string, eb uint, ub, rb string) int {
	if ea > eb {
		return 1
	}
	if ea < eb {
		return -1
	}
	if c := specCmp(ua, ub); c != 0 {
		return c
	}
	return specCmp(ra, rb)
}

// VerifCompare: the implementation's Compare on versions built from parts.
func VerifCompare(ea uint, ua, ra string, eb uint, ub, rb string) int {
	return Compare(Version{Epoch: ea, Version: ua, Revision: ra}, Version{Epoch: eb, Version: ub, Revision: rb})
}

// VerifC01Compare: sign(Compare) == spec.  0 = holds.
func VerifC01Compare(ea uint, ua, ra string, eb uint, ub, rb string) int {
	if sign(VerifCompare(ea, ua, ra, eb, ub, rb)) != specCompare(ea, ua, ra, eb, ub, rb) {
		return 1
	}
	return 0
}

// VerifC01Less: Slice.Less(i,j) <=> Compare(a[i],a[j]) < 0 (spec side), on a two-element slice.
func VerifC01Less(ea uint, ua, ra string, eb uint, ub, rb string) int {
	s := Slice{Version{Epoch: ea, Version: ua, Revision: ra}, Version{Epoch: eb, Version: ub, Revision: rb}}
	if s.Len() != 2 {
		return 2
	}
	if s.Less(0, 1) != (specCompare(ea, ua, ra, eb, ub, rb) < 0) {
		return 1
	}
	if s.Less(1, 0) != (specCompare(eb, ub, rb, ea, ua, ra) < 0) {
		return 3
	}
	return 0
}

// VerifLess: raw result of Slice.Less(0,1) for the solver-side spec.
func VerifLess(ea uint, ua, ra string, eb uint, ub, rb string) bool {
	s := Slice{Version{Epoch: ea, Version: ua, Revision: ra}, Version{Epoch: eb, Version: ub, Revision: rb}}
	return s.Less(0, 1)
}

// VerifC01Parsed: the statement's concrete instances through Parse + Compare:
// sign(Compare(Parse(a), Parse(b))) must equal want.
func VerifC01Parsed(a, b string, want int) int {
	va, err := Parse(a)
	if err != nil {
		return 2
	}
	vb, err := Parse(b)
	if err != nil {
		return 3
	}
	if sign(Compare(va, vb)) != want {
		return 1
	}
	return 0
}

// ---------------------------------------------------------------- C03

func eqVersion(a, b Version) bool {
	return a.Epoch == b.Epoch && a.Version == b.Version && a.Revision == b.Revision
}

// VerifC03Round: every accepted string renders (String, MarshalControl, MarshalText) to text that
// parses back to the same value.  0 = holds (or s is rejected).
func VerifC03Round(s string) int {
	v, err := Parse(s)
	if err != nil {
		return 0
	}
	v2, err := Parse(v.String())
	if err != nil {
		return 10
	}
	if !eqVersion(v, v2) {
		return 11
	}
	mc, err := v.MarshalControl()
	if err != nil {
		return 20
	}
	var v3 Version
	if err := v3.UnmarshalControl(mc); err != nil {
		return 21
	}
	if !eqVersion(v, v3) {
		return 22
	}
	mt, err := (&v).MarshalText()
	if err != nil {
		return 30
	}
	var v4 Version
	if err := v4.UnmarshalText(mt); err != nil {
		return 31
	}
	if !eqVersion(v, v4) {
		return 32
	}
	return 0
}

// VerifC03Grammar: a string assembled from the Policy grammar is accepted with exactly its parts.
// epoch is a digit string (used when hasEpoch), revision is used when hasRev.
func VerifC03Grammar(ws1, epoch, upstream, revision, ws2 string, hasEpoch, hasRev bool) int {
	s := ws1
	var want uint
	if hasEpoch {
		for i := 0; i < len(epoch); i++ {
			want = want*10 + uint(epoch[i]-'0')
		}
		s += epoch + ":"
	}
	s += upstream
	wantRev := ""
	if hasRev {
		s += "-" + revision
		wantRev = revision
	}
	s += ws2
	v, err := Parse(s)
	if err != nil {
		return 1
	}
	if v.Epoch != want {
		return 2
	}
	if v.Version != upstream {
		return 3
	}
	if v.Revision != wantRev {
		return 4
	}
	var u Version
	if err := u.UnmarshalControl(s); err != nil {
		return 5
	}
	if !eqVersion(u, v) {
		return 6
	}
	return 0
}

// VerifC03Reuse: unmarshalling into a value that already holds a version gives the same result as parsing
// afresh (control decoding and text decoding both reuse receivers).
func VerifC03Reuse(s1, s2 string) int {
	want, err := Parse(s2)
	if err != nil {
		return 0
	}
	var v Version
	if err := v.UnmarshalControl(s1); err != nil {
		return 0
	}
	if err := v.UnmarshalControl(s2); err != nil {
		return 1
	}
	if !eqVersion(v, want) {
		return 2
	}
	var w Version
	if err := w.UnmarshalText([]byte(s1)); err != nil {
		return 0
	}
	if err := w.UnmarshalText([]byte(s2)); err != nil {
		return 3
	}
	if !eqVersion(w, want) {
		return 4
	}
	return 0
}

// VerifC03Reject: s belongs to a class the statement says is rejected.  0 = rejected.
func VerifC03Reject(s string) int {
	_, err := Parse(s)
	if err == nil {
		return 1
	}
	var u Version
	if err := u.UnmarshalControl(s); err == nil {
		return 2
	}
	if err := u.UnmarshalText([]byte(s)); err == nil {
		return 3
	}
	return 0
}

// ---------------------------------------------------------------- C02

// VerifSpecCompare exposes the reference order on whole versions (used by the dependency harness as well).
func VerifSpecCompare(a, b Version) int {
	return specCompare(a.Epoch, a.Version, a.Revision, b.Epoch, b.Version, b.Revision)
}

// VerifC02Laws: reflexivity, antisymmetry, transitivity and congruence of Compare on a triple.  0 = holds.
func VerifC02Laws(ea uint, ua, ra string, eb uint, ub, rb string, ec uint, uc, rc string) int {
	a := Version{Epoch: ea, Version: ua, Revision: ra}
	b := Version{Epoch: eb, Version: ub, Revision: rb}
	c := Version{Epoch: ec, Version: uc, Revision: rc}
	if Compare(a, a) != 0 {
		return 1
	}
	ab, ba := sign(Compare(a, b)), sign(Compare(b, a))
	if ab != -ba {
		return 2
	}
	ac, bc := sign(Compare(a, c)), sign(Compare(b, c))
	if ab <= 0 && bc <= 0 && ac > 0 {
		return 3
	}
	if ab == 0 && ac != bc {
		return 4
	}
	return 0
}

// VerifC02Less: the sort adapter is the strict part of Compare - Less(i, j) iff Compare(s[i], s[j]) < 0 - in both
// directions and on the diagonal; with the laws above that makes it a strict weak order, which is what sort.Sort
// needs for any slice length.
func VerifC02Less(ea uint, ua, ra string, eb uint, ub, rb string) int {
	s := Slice{{ea, ua, ra}, {eb, ub, rb}}
	ab, ba := Compare(s[0], s[1]), Compare(s[1], s[0])
	if s.Less(0, 1) != (ab < 0) {
		return 1
	}
	if s.Less(1, 0) != (ba < 0) {
		return 2
	}
	if s.Less(0, 0) || s.Less(1, 1) {
		return 3
	}
	if s.Len() != 2 {
		return 4
	}
	s.Swap(0, 1)
	if !eqVersion(s[0], Version{eb, ub, rb}) || !eqVersion(s[1], Version{ea, ua, ra}) {
		return 5
	}
	return 0
}

func verifSortCheck(in Slice) int {
	s := make(Slice, len(in))
	copy(s, in)
	verifSort(s)
	if len(s) != len(in) {
		return 1
	}
	for i := 1; i < len(s); i++ {
		if VerifSpecCompare(s[i-1], s[i]) > 0 {
			return 2
		}
	}
	// permutation: every input element occurs in the output as often as in the input
	for i := range in {
		ci, co := 0, 0
		for j := range in {
			if eqVersion(in[i], in[j]) {
				ci++
			}
			if eqVersion(in[i], s[j]) {
				co++
			}
		}
		if ci != co {
			return 3
		}
	}
	return 0
}

// VerifC02Sort3 / Sort4: sorting with the provided adapter ends with a non-decreasing permutation.
func VerifC02Sort3(e0 uint, u0, r0 string, e1 uint, u1, r1 string, e2 uint, u2, r2 string) int {
	return verifSortCheck(Slice{{e0, u0, r0}, {e1, u1, r1}, {e2, u2, r2}})
}

func VerifC02Sort4(e0 uint, u0, r0 string, e1 uint, u1, r1 string, e2 uint, u2, r2 string, e3 uint, u3, r3 string) int {
	return verifSortCheck(Slice{{e0, u0, r0}, {e1, u1, r1}, {e2, u2, r2}, {e3, u3, r3}})
}

var verifFuncs = map[string]interface{}{
	"VerifC01Rev":     VerifC01Rev,
	"VerifSpecCmp":    VerifSpecCmp,
	"VerifCompare":    VerifCompare,
	"VerifC01Compare": VerifC01Compare,
	"VerifC01Less":    VerifC01Less,
	"VerifLess":       VerifLess,
	"VerifC01Parsed":  VerifC01Parsed,
	"VerifC02Laws":    VerifC02Laws,
	"VerifC02Less":    VerifC02Less,
	"VerifC02Sort3":   VerifC02Sort3,
	"VerifC02Sort4":   VerifC02Sort4,
	"VerifC03Round":   VerifC03Round,
	"VerifC03Grammar": VerifC03Grammar,
	"VerifC03Reject":  VerifC03Reject,
	"VerifC03Reuse":   VerifC03Reuse,
}

// ---------------------------------------------------------------- C18

// VerifC18Version: the parser returns (no panic, no hang) and the outcome depends only on the input.
func VerifC18Version(s string) int {
	v1, e1 := Parse(s)
	v2, e2 := Parse(s)
	if (e1 == nil) != (e2 == nil) {
		return 1
	}
	if e1 == nil && !eqVersion(v1, v2) {
		return 2
	}
	var u Version
	e3 := u.UnmarshalText([]byte(s))
	if (e3 == nil) != (e1 == nil) {
		return 3
	}
	return 0
}

func init() { verifFuncs["VerifC18Version"] = VerifC18Version }
