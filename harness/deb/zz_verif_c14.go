//go:build verif

package deb

import (
	"archive/tar"
	"bytes"
	"compress/gzip"
	"fmt"
	"io"
	"os"
	"os/exec"
	"strings"
	"sync"

	"github.com/klauspost/compress/zstd"
	"golang.org/x/crypto/openpgp"
)

// ---------------------------------------------------------------- C14 / C16 helpers
// Real in native runs, modelled in the symbolic run (engine/symgo/archmodel.py, pgpmodel.py).

func verifTar(names, contents []string) string {
	var buf bytes.Buffer
	w := tar.NewWriter(&buf)
	for i, n := range names {
		w.WriteHeader(&tar.Header{Name: n, Mode: 0644, Size: int64(len(contents[i])), Typeflag: tar.TypeReg})
		w.Write([]byte(contents[i]))
	}
	w.Close()
	return buf.String()
}

func verifCompress(ext, data string) string {
	var buf bytes.Buffer
	switch ext {
	case "":
		return data
	case ".gz":
		w := gzip.NewWriter(&buf)
		w.Write([]byte(data))
		w.Close()
	case ".zst":
		w, _ := zstd.NewWriter(&buf)
		w.Write([]byte(data))
		w.Close()
	case ".xz", ".lzma", ".bz2":
		// no Go writer for these in the module cache: the tooling Python's lzma / bz2 modules write the stream,
		// the library's own third-party decoders read it
		code := map[string]string{
			".xz":   "import sys,lzma;sys.stdout.buffer.write(lzma.compress(sys.stdin.buffer.read(),format=lzma.FORMAT_XZ))",
			".lzma": "import sys,lzma;sys.stdout.buffer.write(lzma.compress(sys.stdin.buffer.read(),format=lzma.FORMAT_ALONE))",
			".bz2":  "import sys,bz2;sys.stdout.buffer.write(bz2.compress(sys.stdin.buffer.read()))",
		}[ext]
		py := os.Getenv("VERIF_PYTHON")
		if py == "" {
			py = "python3"
		}
		cmd := exec.Command(py, "-c", code)
		cmd.Stdin = strings.NewReader(data)
		out, err := cmd.Output()
		if err != nil {
			panic("verifCompress: " + ext + " writer failed: " + err.Error())
		}
		return string(out)
	default:
		panic("verifCompress: no native writer for " + ext)
	}
	return buf.String()
}

// verifCompressSplit: like verifCompress, but a gzip stream is written as two concatenated members (RFC 1952
// section 2.2: "a gzip file consists of a series of members"), the first holding data[:cut].
func verifCompressSplit(ext, data string, cut int) string {
	if ext != ".gz" || cut <= 0 || cut >= len(data) {
		return verifCompress(ext, data)
	}
	return verifCompress(ext, data[:cut]) + verifCompress(ext, data[cut:])
}

var (
	verifKeyMu   sync.Mutex
	verifPGPKeys = map[int]*openpgp.Entity{}
)

func verifKey(i int) *openpgp.Entity {
	verifKeyMu.Lock()
	defer verifKeyMu.Unlock()
	if e, ok := verifPGPKeys[i]; ok {
		return e
	}
	e, err := openpgp.NewEntity("verif", "", "verif@example.org", nil)
	if err != nil {
		panic(err)
	}
	verifPGPKeys[i] = e
	return e
}

func verifDetachSign(data string, key int) string {
	var buf bytes.Buffer
	if err := openpgp.DetachSign(&buf, verifKey(key), strings.NewReader(data), nil); err != nil {
		panic(err)
	}
	return buf.String()
}

func verifArMember(name, data string) string {
	h := fmt.Sprintf("%-16s%-12s%-6s%-6s%-8s%-10d`\n", name, "1342943816", "0", "0", "100644", len(data))
	out := h + data
	if len(data)%2 == 1 {
		out += "\n"
	}
	return out
}

func verifAr(names, datas []string) string {
	out := "!<arch>\n"
	for i := range names {
		out += verifArMember(names[i], datas[i])
	}
	return out
}

func dumpControl(c *Control) string {
	return "Package=" + c.Package + "\x00Source=" + c.Source + "\x00Version=" + c.Version.String() + "\x00Arch=" + c.Architecture.ABI + "/" + c.Architecture.OS + "/" + c.Architecture.CPU +
		"\x00Maintainer=" + c.Maintainer + "\x00InstalledSize=" + fmt.Sprint(c.InstalledSize) + "\x00MultiArch=" + c.MultiArch + "\x00Depends=" + c.Depends.String() +
		"\x00Section=" + c.Section + "\x00Priority=" + c.Priority + "\x00Homepage=" + c.Homepage + "\x00Description=" + strings.TrimSuffix(c.Description, "\n") + "\x00SourceName()=" + c.SourceName() + "\x00"
}

func verifListTar(r *tar.Reader) (string, bool) {
	out := ""
	for i := 0; i < 16; i++ {
		h, err := r.Next()
		if err == io.EOF {
			return out, true
		}
		if err != nil {
			return "", false
		}
		b, err := io.ReadAll(r)
		if err != nil {
			return "", false
		}
		out += h.Name + "\x00" + string(b) + "\x00"
	}
	return "", false
}

// VerifC14Load: a format-2.0 .deb assembled from a model loads to exactly that model.
// controlPos: position of ./control inside the control tarball (0 first, 1 after another file, 2 last of three);
// controlName: "./control" or "control"; extra: additional ar members - 0 none, 1 one between control and data,
// 2 one behind the data member (where debsigs appends its signatures), 3 both.
// split > 0: gzip-compressed tarballs are written as two gzip members, cut after split bytes.
func VerifC14Load(cext, dext string, controlPos int, controlName string, ctl string, expectCtl string, f0name, f0data, f1name, f1data string, extra int, binary string, pad int, split int) int {
	cn := []string{"./md5sums", "./postinst"}
	cc := []string{"aa  usr/x\n" + strings.Repeat("0123456789abcde\n", pad/16), "#!/bin/sh\n"}
	names, conts := []string{}, []string{}
	for i := 0; i < 3; i++ {
		if i == controlPos {
			names, conts = append(names, controlName), append(conts, ctl)
		} else if len(cn) > 0 && (controlPos != 0 || i > 0) {
			names, conts = append(names, cn[0]), append(conts, cc[0])
			cn, cc = cn[1:], cc[1:]
		}
	}
	ctar := verifCompressSplit(cext, verifTar(names, conts), split)
	dtar := verifCompressSplit(dext, verifTar([]string{f0name, f1name}, []string{f0data, f1data}), split)
	mn := []string{"debian-binary", "control.tar" + cext}
	md := []string{binary, ctar}
	if extra == 1 || extra == 3 {
		mn, md = append(mn, "_gpgbuilder"), append(md, "sig")
	}
	mn, md = append(mn, "data.tar"+dext), append(md, dtar)
	if extra == 2 || extra == 3 {
		mn, md = append(mn, "_gpgorigin"), append(md, "sig2")
	}
	archive := verifAr(mn, md)
	load := func() (*Deb, error) { return Load(bytes.NewReader([]byte(archive)), "x.deb") }
	d, err := load()
	if binary != "2.0\n" {
		if err == nil {
			return 1 // a format that is not 2.0 was accepted
		}
		if d != nil {
			return 2
		}
		return 0
	}
	if err != nil {
		return 3
	}
	if d.Path != "x.deb" {
		return 4
	}
	if dumpControl(&d.Control) != expectCtl {
		return 5
	}
	if d.ControlExt != "tar"+cext || d.DataExt != "tar"+dext {
		return 6
	}
	if len(d.ArContent) != len(mn) {
		return 7
	}
	for i, n := range mn {
		e, ok := d.ArContent[n]
		if !ok || e.Name != n || e.Size != int64(len(md[i])) {
			return 8
		}
	}
	if d.Data == nil {
		return 9
	}
	// loading the same bytes again gives the same result and does not disturb the first one
	d2, err := load()
	if err != nil || dumpControl(&d2.Control) != expectCtl || d2.ControlExt != d.ControlExt || d2.DataExt != d.DataExt || d2.Data == nil {
		return 12
	}
	want := f0name + "\x00" + f0data + "\x00" + f1name + "\x00" + f1data + "\x00"
	got, ok := verifListTar(d.Data)
	if !ok || got != want {
		return 10
	}
	got2, ok := verifListTar(d2.Data)
	if !ok || got2 != want {
		return 13
	}
	if d.Close() != nil || d2.Close() != nil {
		return 11
	}
	return 0
}

// VerifC14Missing: a package without one of the three required members, or whose control tarball holds no
// control file, is rejected (and loading ends).  drop: 0 debian-binary, 1 control.tar, 2 data.tar, 3 the
// control file inside the tarball.
func VerifC14Missing(drop int, cext string) int {
	ctlNames, ctlConts := []string{"./md5sums", "./control"}, []string{"aa  x\n", "Package: p\nVersion: 1\nArchitecture: all\n"}
	if drop == 3 {
		ctlNames, ctlConts = ctlNames[:1], ctlConts[:1]
	}
	mn := []string{"debian-binary", "control.tar" + cext, "data.tar"}
	md := []string{"2.0\n", verifCompress(cext, verifTar(ctlNames, ctlConts)), verifTar([]string{"./x"}, []string{"y"})}
	if drop < 3 {
		mn = append(mn[:drop], mn[drop+1:]...)
		md = append(md[:drop], md[drop+1:]...)
	}
	d, err := Load(bytes.NewReader([]byte(verifAr(mn, md))), "x.deb")
	if err == nil {
		return 1
	}
	if d != nil {
		return 2
	}
	return 0
}

func init() {
	verifFuncs["VerifC14Load"] = VerifC14Load
	verifFuncs["VerifC14Missing"] = VerifC14Missing
}
