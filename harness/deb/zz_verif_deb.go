//go:build verif

package deb

// Harness code for the solver-based checks (injected by overlay; never part of /repo).

import (
	"bytes"
	"errors"
	"io"
)

// verifHdrAt is an io.ReaderAt that serves `count` bytes of one 60-byte header at offset `at` (an error
// accompanies a short read, as the io.ReaderAt contract demands) and records the offsets it was asked for.
type verifHdrAt struct {
	hdr   []byte
	at    int64
	count int
	asked []int64
}

var errVerifShort = errors.New("short read")

func (r *verifHdrAt) ReadAt(p []byte, off int64) (int, error) {
	r.asked = append(r.asked, off)
	if off != r.at {
		return 0, io.EOF
	}
	n := r.count
	if n > len(p) {
		n = len(p)
	}
	copy(p, r.hdr[:n])
	if n < len(p) {
		return n, errVerifShort
	}
	return n, nil
}

// VerifC13Step: one step of the iterator from an arbitrary offset over a well-formed header: the entry
// carries exactly the header's fields, its reader covers [offset+60, offset+60+size), and the iterator moves
// to offset+60+size+(size mod 2), i.e. to where the next well-formed header lies.
func VerifC13Step(hdr string, offset int64, name string, ts, uid, gid int64, mode string, size int64) int {
	src := &verifHdrAt{hdr: []byte(hdr), at: offset, count: 60}
	ar := &Ar{in: src, offset: offset}
	e, err := ar.Next()
	if err != nil {
		return 1
	}
	if e == nil {
		return 2
	}
	if e.Name != name {
		return 3
	}
	if e.Timestamp != ts {
		return 4
	}
	if e.OwnerID != uid {
		return 5
	}
	if e.GroupID != gid {
		return 6
	}
	if e.FileMode != mode {
		return 7
	}
	if e.Size != size {
		return 8
	}
	if ar.offset != offset+60+size+size%2 {
		return 9
	}
	if e.Data == nil || e.Data.Size() != size {
		return 10
	}
	if size > 0 {
		var b [1]byte
		e.Data.ReadAt(b[:], 0)
		if src.asked[len(src.asked)-1] != offset+60 {
			return 11
		}
	}
	return 0
}

// VerifC15Step: one step from an arbitrary state over arbitrary bytes: no panic; a returned member came from a
// header with the two-byte magic, has a non-negative size, a reader of exactly that size, and the iterator
// advanced by at least 60 bytes; failure returns no member.
func VerifC15Step(hdr string, count int, offset int64) int {
	src := &verifHdrAt{hdr: []byte(hdr), at: offset, count: count}
	ar := &Ar{in: src, offset: offset}
	e, err := ar.Next()
	if err != nil {
		if e != nil {
			return 1
		}
		if ar.offset != offset {
			return 2
		}
		return 0
	}
	if e == nil {
		return 3
	}
	if count != 60 {
		return 4
	}
	if hdr[58] != 0x60 || hdr[59] != 0x0A {
		return 5
	}
	if e.Size < 0 {
		return 6
	}
	if ar.offset < offset+60 {
		return 7
	}
	if e.Data == nil || e.Data.Size() != e.Size {
		return 8
	}
	return 0
}

// VerifC13Magic: LoadAr accepts exactly the 8-byte global magic.
func VerifC13Magic(head string) int {
	ar, err := LoadAr(bytes.NewReader([]byte(head)))
	want := len(head) >= 8 && head[:8] == "!<arch>\n"
	if (err == nil) != want {
		return 1
	}
	if err == nil && (ar == nil || ar.offset != 8) {
		return 2
	}
	if err != nil && ar != nil {
		return 3
	}
	return 0
}

func verifReadAll(e *ArEntry) (string, bool) {
	if _, err := e.Data.Seek(0, 0); err != nil {
		return "", false
	}
	b, err := io.ReadAll(e.Data)
	if err != nil {
		return "", false
	}
	return string(b), true
}

// VerifC13Archive: an archive of n (<= 3) members is iterated completely: members in order with the recorded
// name and size, each reader yields exactly the member's bytes, then io.EOF; the first member's reader is still
// valid and re-readable after the iterator has reached the end.
func VerifC13Archive(archive string, n int, name0, data0, name1, data1, name2, data2 string) int {
	names := []string{name0, name1, name2}
	datas := []string{data0, data1, data2}
	ar, err := LoadAr(bytes.NewReader([]byte(archive)))
	if err != nil {
		return 1
	}
	var entries []*ArEntry
	for i := 0; i < n; i++ {
		e, err := ar.Next()
		if err != nil {
			return 10 + i
		}
		if e.Name != names[i] {
			return 20 + i
		}
		if e.Size != int64(len(datas[i])) {
			return 30 + i
		}
		got, ok := verifReadAll(e)
		if !ok || got != datas[i] {
			return 40 + i
		}
		entries = append(entries, e)
	}
	e, err := ar.Next()
	if err != io.EOF || e != nil {
		return 50
	}
	for i := 0; i < n; i++ {
		got, ok := verifReadAll(entries[i])
		if !ok || got != datas[i] {
			return 60 + i
		}
	}
	return 0
}

// VerifC15Iterate: opening arbitrary bytes as an ar archive and iterating to the end takes at most one step per
// 60 input bytes (plus the terminating one), every member has a non-negative size and a reader that delivers
// exactly that many bytes (as far as the input reaches), and a second run gives the same outcome.
func VerifC15Iterate(data string) int {
	run := func() (int, string) {
		trace := ""
		ar, err := LoadAr(bytes.NewReader([]byte(data)))
		if err != nil {
			if ar != nil {
				return 1, ""
			}
			return 0, "E"
		}
		limit := len(data)/60 + 1
		for steps := 0; ; steps++ {
			if steps > limit {
				return 2, ""
			}
			e, err := ar.Next()
			if err != nil {
				if e != nil {
					return 3, ""
				}
				return 0, trace + "e"
			}
			if e.Size < 0 {
				return 4, ""
			}
			if e.Data.Size() != e.Size {
				return 5, ""
			}
			b, _ := io.ReadAll(e.Data)
			if int64(len(b)) > e.Size {
				return 6, ""
			}
			trace += "M" + e.Name + "\x00" + string(b) + "\x00"
		}
	}
	c1, t1 := run()
	if c1 != 0 {
		return c1
	}
	c2, t2 := run()
	if c2 != 0 || t1 != t2 {
		return 7
	}
	return 0
}

var verifFuncs = map[string]interface{}{
	"VerifC15Iterate": VerifC15Iterate,
	"VerifC13Step":    VerifC13Step,
	"VerifC15Step":    VerifC15Step,
	"VerifC13Magic":   VerifC13Magic,
	"VerifC13Archive": VerifC13Archive,
}
