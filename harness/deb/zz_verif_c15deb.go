//go:build verif

package deb

import (
	"bytes"
)

// VerifC15Deb: opening hostile bytes as a .deb never panics, returns a package or an error (never both, never
// neither), and does the same when asked again.  The archive is a structured corruption of a valid package:
//   binary            content of the debian-binary member (arbitrary bytes)
//   n0, n1, n2        the three member names (arbitrary bytes; the valid ones are debian-binary, control.tar, data.tar)
//   ctlRaw, rawCtl    rawCtl: the control member holds ctlRaw instead of a tarball
//   order             0 b,c,d  1 c,b,d  2 b,d,c  3 d,c,b  4 b,c,c,d  5 b,c,d,d  6 b,b,c,d  7 b only  8 b,c only
//                     9 b,c,d and a fourth member named ctlRaw
//   trunc             >= 0: the archive is cut after that many bytes
func VerifC15Deb(binary, n0, n1, n2, ctlRaw string, rawCtl bool, order, trunc int) int {
	ctl := verifTar([]string{"./control"}, []string{"Package: p\nVersion: 1\nArchitecture: all\n"})
	if rawCtl {
		ctl = ctlRaw
	}
	b := verifArMember(n0, binary)
	c := verifArMember(n1, ctl)
	d := verifArMember(n2, verifTar([]string{"./x"}, []string{"y"}))
	var body string
	switch order {
	case 0:
		body = b + c + d
	case 1:
		body = c + b + d
	case 2:
		body = b + d + c
	case 3:
		body = d + c + b
	case 4:
		body = b + c + c + d
	case 5:
		body = b + c + d + d
	case 6:
		body = b + b + c + d
	case 9:
		// a sibling member (named by ctlRaw) that is no tarball, beside the regular three
		body = b + c + d + verifArMember(ctlRaw, "sig")
	case 7:
		body = b
	default:
		body = b + c
	}
	archive := "!<arch>\n" + body
	if trunc >= 0 {
		if trunc > len(archive) {
			return 0
		}
		archive = archive[:trunc]
	}
	run := func() (int, string) {
		p, err := Load(bytes.NewReader([]byte(archive)), "x.deb")
		if err != nil {
			if p != nil {
				return 1, ""
			}
			return 0, "E"
		}
		if p == nil {
			return 2, ""
		}
		if p.Data == nil {
			return 3, ""
		}
		t := "D" + p.ControlExt + "\x00" + p.DataExt + "\x00" + dumpControl(&p.Control)
		p.Close()
		return 0, t
	}
	c1, t1 := run()
	if c1 != 0 {
		return c1
	}
	// again (natively the iteration order of the member map varies from load to load: trunc < -1 asks for -trunc
	// further loads when a counterexample is replayed)
	again := 1
	if trunc < -1 {
		again = -trunc
	}
	for i := 0; i < again; i++ {
		c2, t2 := run()
		if c2 != 0 || t1 != t2 {
			return 7
		}
	}
	return 0
}

func init() { verifFuncs["VerifC15Deb"] = VerifC15Deb }
