//go:build verif

package deb

import (
	"bytes"

	"golang.org/x/crypto/openpgp"
)

// ---------------------------------------------------------------- C16

// keyring modes: 1 empty, 2 {key 0}, 3 {key 1}, 4 {key 0, key 1}
func verifKeyring(mode int) openpgp.EntityList {
	kr := openpgp.EntityList{}
	if mode == 2 || mode == 4 {
		kr = append(kr, verifKey(0))
	}
	if mode == 3 || mode == 4 {
		kr = append(kr, verifKey(1))
	}
	return kr
}

// VerifC16: a package signed (debsig style) by key `signer` in role `role` is loaded and verified with the given
// keyring for role `ask`.  tamper (after signing): 0 none, 1 a byte of the control paragraph, 2 a byte of the data
// payload, 3 the signature member replaced by one over other bytes.  decoy: 0 none, 1 a second control.* member
// (other maintainer), 2 a second data.* member.  Success of load + verification implies: the role is present,
// the signer is in the keyring, nothing was altered, there is no decoy - and the control fields and payload the
// loader exposes are the signed ones.  attempts > 1 repeats the whole thing (native map iteration order varies).
// dext: encoding of the data member; interleave: another package (same encodings, other payload) is loaded between
// loading this one and reading its payload.
// role: the role the package is signed in (member "_gpg"+role); ask: the role verification is asked for.
func VerifC16(signer, keyring int, ask string, tamper, decoy int, maint string, payload string, nb byte, attempts int, second int, role string, dext string, interleave bool) int {
	ctlText := func(m string) string {
		return "Package: p\nVersion: 1\nArchitecture: all\nMaintainer: " + m + "\n"
	}
	ctar := verifCompress(".gz", verifTar([]string{"./control"}, []string{ctlText(maint)}))
	dtar := verifCompress(dext, verifTar([]string{"./f"}, []string{payload}))
	other := verifAr([]string{"debian-binary", "control.tar.gz", "data.tar" + dext}, []string{"2.0\n", ctar, verifCompress(dext, verifTar([]string{"./g"}, []string{payload + "y"}))})
	sig := verifDetachSign("2.0\n"+ctar+dtar, signer)
	evilMaint := maint + "x"
	if tamper == 1 {
		if len(maint) == 0 || maint[0] == nb {
			return 0
		}
		evilMaint = string([]byte{nb}) + maint[1:]
		ctar = verifCompress(".gz", verifTar([]string{"./control"}, []string{ctlText(evilMaint)}))
	}
	if tamper == 2 {
		if len(payload) == 0 || payload[0] == nb {
			return 0
		}
		dtar = verifCompress(dext, verifTar([]string{"./f"}, []string{string([]byte{nb}) + payload[1:]}))
	}
	if tamper == 3 {
		sig = verifDetachSign("2.0\n"+ctar+dtar+"x", signer)
	}
	mn := []string{"debian-binary", "control.tar.gz", "data.tar" + dext, "_gpg" + role}
	md := []string{"2.0\n", ctar, dtar, sig}
	if decoy == 1 {
		mn = append(mn, "control.tar")
		md = append(md, verifTar([]string{"./control"}, []string{ctlText(evilMaint)}))
	}
	if decoy == 2 {
		if dext == ".gz" {
			mn = append(mn, "data.tar")
			md = append(md, verifTar([]string{"./f"}, []string{payload + "x"}))
		} else {
			mn = append(mn, "data.tar.gz")
			md = append(md, verifCompress(".gz", verifTar([]string{"./f"}, []string{payload + "x"})))
		}
	}
	if decoy == 4 {
		// an empty second control member / data member (nothing to read, still a second member)
		mn = append(mn, "control.tar")
		md = append(md, "")
	}
	if decoy == 5 {
		mn = append(mn, "data.tar.xz")
		md = append(md, "")
	}
	if decoy == 3 {
		// the signed control tarball is kept under a name that is no tarball name while a foreign one takes its place
		md[1] = verifCompress(".gz", verifTar([]string{"./control"}, []string{ctlText(evilMaint)}))
		mn = append(mn, "control.orig")
		md = append(md, ctar)
	}
	archive := verifAr(mn, md)
	inKeyring := (signer == 0 && (keyring == 2 || keyring == 4)) || (signer == 1 && (keyring == 3 || keyring == 4))
	for a := 0; a < attempts; a++ {
		d, err := Load(bytes.NewReader([]byte(archive)), "x.deb")
		if err != nil {
			if decoy == 0 {
				return 1 // a well-formed package must load
			}
			continue
		}
		// what the loader exposes as payload (read before verification: CheckDebsig rewinds and consumes the
		// member readers the tar stream is built on)
		if interleave {
			if d2, err := Load(bytes.NewReader([]byte(other)), "y.deb"); err != nil || d2 == nil {
				return 13
			}
		}
		listing, listed := verifListTar(d.Data)
		s, err := d.CheckDebsig(verifKeyring(keyring), ask)
		if err != nil {
			if s != nil {
				return 2
			}
			if tamper == 0 && decoy == 0 && inKeyring && ask == role {
				return 3 // a good signature by a keyring key was refused
			}
			d.Close()
			continue
		}
		// verification succeeded
		if ask != role {
			return 4
		}
		if !inKeyring {
			return 5
		}
		if tamper != 0 {
			return 6
		}
		if decoy != 0 {
			return 7
		}
		if s != verifKey(signer) {
			return 8
		}
		if d.Control.Maintainer != maint {
			return 9
		}
		if !listed || listing != "./f\x00"+payload+"\x00" {
			return 10
		}
		if second != 0 {
			// asking again with a keyring that lacks the signing key must not succeed
			in2 := (signer == 0 && (second == 2 || second == 4)) || (signer == 1 && (second == 3 || second == 4))
			s2, err2 := d.CheckDebsig(verifKeyring(second), ask)
			if err2 == nil && !in2 {
				return 11
			}
			if err2 != nil && s2 != nil {
				return 12
			}
		}
		d.Close()
	}
	return 0
}

func init() { verifFuncs["VerifC16"] = VerifC16 }
