//go:build verif

package hashio

// Harness code for the solver-based checks (injected by overlay; never part of /repo).

import (
	"bytes"
	"io"
	"strings"
)

func refDigest(name, content string) []byte {
	h, err := GetHash(name)
	if err != nil {
		return nil
	}
	h.Write([]byte(content))
	return h.Sum(nil)
}

func algName(k int) string {
	switch k {
	case 0:
		return "md5"
	case 1:
		return "sha1"
	case 2:
		return "sha256"
	case 3:
		return "sha512"
	}
	return "bogus"
}

// chunks cuts content at the two offsets c1 <= c2.
func chunks(content string, c1, c2 int) []string {
	return []string{content[:c1], content[c1:c2], content[c2:]}
}

// VerifC12Writers: the hashing writer for the algorithms (k0, k1, k2; -1 = absent) passes the bytes through
// unchanged and each hasher reports the true length and the digest of its own algorithm, however the stream
// is split into writes.
func VerifC12Writers(content string, c1, c2 int, k0, k1, k2 int, single bool) int {
	names := []string{}
	for _, k := range []int{k0, k1, k2} {
		if k >= 0 {
			names = append(names, algName(k))
		}
	}
	var target bytes.Buffer
	var w io.Writer
	var hs []*Hasher
	var err error
	if single {
		var h *Hasher
		w, h, err = NewHasherWriter(names[0], &target)
		hs = []*Hasher{h}
		names = names[:1]
	} else {
		w, hs, err = NewHasherWriters(names, &target)
	}
	if err != nil {
		return 1
	}
	if len(hs) != len(names) {
		return 4
	}
	sofar := ""
	for ci, c := range chunks(content, c1, c2) {
		var n int
		var err error
		if ci == 1 {
			// the middle piece arrives through io.WriteString (which prefers a WriteString method where there is one)
			n, err = io.WriteString(w, c)
		} else {
			n, err = w.Write([]byte(c))
		}
		if err != nil || n != len(c) {
			return 2
		}
		// a checkpoint after every write: the length and digest of the stream so far (asking does not disturb
		// what follows)
		sofar += c
		for i, h := range hs {
			if h.Size() != int64(len(sofar)) {
				return 8
			}
			if !bytes.Equal(h.Sum(nil), refDigest(names[i], sofar)) {
				return 9
			}
		}
	}
	if target.String() != content {
		return 3
	}
	for i, h := range hs {
		if h.Name() != names[i] {
			return 5
		}
		if h.Size() != int64(len(content)) {
			return 6
		}
		if !bytes.Equal(h.Sum(nil), refDigest(names[i], content)) {
			return 7
		}
		// Sum appends to what it is given, and may be asked again
		if !bytes.Equal(h.Sum([]byte("x")), append([]byte("x"), refDigest(names[i], content)...)) {
			return 10
		}
	}
	return 0
}

// verifChunkReader hands out its data in the given chunk sizes; with eofWithData the last chunk comes together
// with io.EOF, which the io.Reader contract allows (network bodies and decompressors do it).
type verifChunkReader struct {
	data        string
	sizes       []int
	eofWithData bool
}

func (r *verifChunkReader) Read(p []byte) (int, error) {
	for len(r.sizes) > 0 && r.sizes[0] == 0 {
		r.sizes = r.sizes[1:]
	}
	if len(r.data) == 0 {
		return 0, io.EOF
	}
	n := len(r.data)
	if len(r.sizes) > 0 && r.sizes[0] < n {
		n = r.sizes[0]
	}
	if n > len(p) {
		n = len(p)
	}
	copy(p, r.data[:n])
	r.data = r.data[n:]
	if len(r.sizes) > 0 {
		r.sizes[0] -= n
	}
	if len(r.data) == 0 && r.eofWithData {
		return n, io.EOF
	}
	return n, nil
}

// VerifC12Source: the hashing readers over a source that delivers the stream in chunks of c1 / c2-c1 / rest
// bytes, the last one possibly together with io.EOF: every byte is passed on, counted and hashed.
func VerifC12Source(content string, c1, c2 int, k0, k1 int, single, eofWithData bool) int {
	names := []string{}
	for _, k := range []int{k0, k1} {
		if k >= 0 {
			names = append(names, algName(k))
		}
	}
	src := &verifChunkReader{data: content, sizes: []int{c1, c2 - c1, len(content) - c2}, eofWithData: eofWithData}
	var r io.Reader
	var hs []*Hasher
	var err error
	if single {
		var h *Hasher
		r, h, err = NewHasherReader(names[0], src)
		hs = []*Hasher{h}
		names = names[:1]
	} else {
		r, hs, err = NewHasherReaders(names, src)
	}
	if err != nil {
		return 1
	}
	got := ""
	buf := make([]byte, len(content)+1)
	for i := 0; i < len(content)+3; i++ {
		n, err := r.Read(buf)
		got += string(buf[:n])
		if err == io.EOF {
			break
		}
		if err != nil {
			return 2
		}
	}
	if got != content {
		return 3
	}
	for i, h := range hs {
		if h.Size() != int64(len(content)) {
			return 6
		}
		if !bytes.Equal(h.Sum(nil), refDigest(names[i], content)) {
			return 7
		}
	}
	return 0
}

// VerifC12Readers: the same through the hashing reader, read with buffers of the chunk sizes.
func VerifC12Readers(content string, c1, c2 int, k0, k1, k2 int, single bool) int {
	names := []string{}
	for _, k := range []int{k0, k1, k2} {
		if k >= 0 {
			names = append(names, algName(k))
		}
	}
	var r io.Reader
	var hs []*Hasher
	var err error
	if single {
		var h *Hasher
		r, h, err = NewHasherReader(names[0], strings.NewReader(content))
		hs = []*Hasher{h}
		names = names[:1]
	} else {
		r, hs, err = NewHasherReaders(names, strings.NewReader(content))
	}
	if err != nil {
		return 1
	}
	got := ""
	for _, c := range chunks(content, c1, c2) {
		if len(c) == 0 {
			continue
		}
		buf := make([]byte, len(c))
		n, err := io.ReadFull(r, buf)
		if err != nil || n != len(c) {
			return 2
		}
		got += string(buf)
	}
	if got != content {
		return 3
	}
	for i, h := range hs {
		if h.Name() != names[i] {
			return 5
		}
		if h.Size() != int64(len(content)) {
			return 6
		}
		if !bytes.Equal(h.Sum(nil), refDigest(names[i], content)) {
			return 7
		}
	}
	return 0
}

// VerifC12Unknown: an unknown algorithm name is an error everywhere.
func VerifC12Unknown(name string) int {
	known := name == "md5" || name == "sha1" || name == "sha256" || name == "sha512"
	var sink bytes.Buffer
	if _, err := GetHash(name); (err == nil) != known {
		return 1
	}
	if h, err := NewHasher(name); (err == nil) != known || (err != nil && h != nil) {
		return 2
	}
	if _, _, err := NewHasherWriter(name, &sink); (err == nil) != known {
		return 3
	}
	if _, _, err := NewHasherWriters([]string{"md5", name}, &sink); (err == nil) != known {
		return 4
	}
	if _, _, err := NewHasherReader(name, strings.NewReader("")); (err == nil) != known {
		return 5
	}
	if _, _, err := NewHasherReaders([]string{name, "sha1"}, strings.NewReader("")); (err == nil) != known {
		return 6
	}
	return 0
}

var verifFuncs = map[string]interface{}{
	"VerifC12Writers": VerifC12Writers,
	"VerifC12Readers": VerifC12Readers,
	"VerifC12Source":  VerifC12Source,
	"VerifC12Unknown": VerifC12Unknown,
}
