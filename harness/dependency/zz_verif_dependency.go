//go:build verif

package dependency

import "pault.ag/go/debian/version"

// Harness code for the solver-based checks (injected by overlay; never part of /repo).

func eqArchP(a, b *Arch) bool {
	if a == nil || b == nil {
		return a == nil && b == nil
	}
	return a.ABI == b.ABI && a.OS == b.OS && a.CPU == b.CPU
}

func eqArchSet(a, b *ArchSet) bool {
	if a == nil || b == nil {
		return a == nil && b == nil
	}
	if a.Not != b.Not || len(a.Architectures) != len(b.Architectures) {
		return false
	}
	for i := range a.Architectures {
		if !eqArchP(&a.Architectures[i], &b.Architectures[i]) {
			return false
		}
	}
	return true
}

func eqVersionRel(a, b *VersionRelation) bool {
	if a == nil || b == nil {
		return a == nil && b == nil
	}
	return a.Number == b.Number && a.Operator == b.Operator
}

func eqStageSets(a, b []StageSet) bool {
	if len(a) != len(b) {
		return false
	}
	for i := range a {
		if len(a[i].Stages) != len(b[i].Stages) {
			return false
		}
		for j := range a[i].Stages {
			if a[i].Stages[j].Not != b[i].Stages[j].Not || a[i].Stages[j].Name != b[i].Stages[j].Name {
				return false
			}
		}
	}
	return true
}

// eqPossibility compares what a possibility denotes.  For substvars only the name and the flag carry
// meaning (the parser leaves the restriction fields unset for them).
func eqPossibility(a, b *Possibility) int {
	if a.Substvar != b.Substvar {
		return 1
	}
	if a.Name != b.Name {
		return 2
	}
	if !eqArchP(a.Arch, b.Arch) {
		return 3
	}
	if !eqVersionRel(a.Version, b.Version) {
		return 4
	}
	if a.Substvar {
		return 0
	}
	if !eqArchSet(a.Architectures, b.Architectures) {
		return 5
	}
	if !eqStageSets(a.StageSets, b.StageSets) {
		return 6
	}
	return 0
}

func eqDependency(a, b *Dependency) int {
	if len(a.Relations) != len(b.Relations) {
		return 7
	}
	for i := range a.Relations {
		if len(a.Relations[i].Possibilities) != len(b.Relations[i].Possibilities) {
			return 8
		}
		for j := range a.Relations[i].Possibilities {
			if c := eqPossibility(&a.Relations[i].Possibilities[j], &b.Relations[i].Possibilities[j]); c != 0 {
				return c
			}
		}
	}
	return 0
}

// VerifC05Dep: every accepted string renders to a string that is accepted and parses to a
// structurally identical value (String and MarshalControl/UnmarshalControl).  0 = holds.
func VerifC05Dep(s string) int {
	d1, err := Parse(s)
	if err != nil {
		return 0
	}
	s2 := d1.String()
	d2, err := Parse(s2)
	if err != nil {
		return 10
	}
	if c := eqDependency(d1, d2); c != 0 {
		return 10 + c
	}
	mc, err := d1.MarshalControl()
	if err != nil {
		return 20
	}
	var d3 Dependency
	if err := d3.UnmarshalControl(mc); err != nil {
		return 21
	}
	if c := eqDependency(d1, &d3); c != 0 {
		return 21 + c
	}
	// parsing back into a value that already holds a result (a re-used struct) gives that same result again
	if err := d3.UnmarshalControl(mc); err != nil {
		return 40
	}
	if c := eqDependency(d1, &d3); c != 0 {
		return 40 + c
	}
	return 0
}

// VerifC05Arch: parse, render, parse gives back the same triple.
func VerifC05Arch(x string) int {
	a1, err := ParseArch(x)
	if err != nil {
		return 0
	}
	a2, err := ParseArch(a1.String())
	if err != nil {
		return 30
	}
	if !eqArchP(a1, a2) {
		return 31
	}
	var a3 Arch
	if err := a3.UnmarshalControl(x); err != nil {
		return 32
	}
	mc, err := a3.MarshalControl()
	if err != nil {
		return 33
	}
	var a4 Arch
	if err := a4.UnmarshalControl(mc); err != nil {
		return 34
	}
	if !eqArchP(&a3, &a4) {
		return 35
	}
	return 0
}

// ---------------------------------------------------------------- C04

func dumpArch(a *Arch) string {
	return a.ABI + "\x00" + a.OS + "\x00" + a.CPU + "\x00"
}

// verifDump writes a dependency in a canonical, unambiguous form that does not go through String().
func verifDump(d *Dependency) string {
	out := ""
	for _, rel := range d.Relations {
		out += "R"
		for i := range rel.Possibilities {
			p := &rel.Possibilities[i]
			out += "P" + p.Name + "\x00"
			if p.Substvar {
				out += "$"
			} else {
				out += "-"
			}
			if p.Arch != nil {
				out += "A" + dumpArch(p.Arch)
			} else {
				out += "a"
			}
			if p.Version != nil {
				out += "V" + p.Version.Operator + "\x00" + p.Version.Number + "\x00"
			} else {
				out += "v"
			}
			if p.Architectures != nil && len(p.Architectures.Architectures) > 0 {
				if p.Architectures.Not {
					out += "S!"
				} else {
					out += "S+"
				}
				for j := range p.Architectures.Architectures {
					out += dumpArch(&p.Architectures.Architectures[j]) + ";"
				}
			} else {
				out += "s"
			}
			for _, ss := range p.StageSets {
				out += "G"
				for _, st := range ss.Stages {
					if st.Not {
						out += "!"
					} else {
						out += "+"
					}
					out += st.Name + "\x00"
				}
			}
			out += "g"
		}
	}
	return out
}

// VerifDump exposes the canonical dump to the harnesses of other packages.
func VerifDump(d *Dependency) string { return verifDump(d) }

// VerifC04Accept: s is a field built from the Policy grammar; expect is the canonical dump of the
// structure it denotes.  0 = parsed to exactly that structure (by Parse and by UnmarshalControl).
func VerifC04Accept(s, expect string) int {
	d, err := Parse(s)
	if err != nil {
		return 1
	}
	if d == nil {
		return 2
	}
	if verifDump(d) != expect {
		return 3
	}
	var u Dependency
	if err := u.UnmarshalControl(s); err != nil {
		return 4
	}
	if verifDump(&u) != expect {
		return 5
	}
	// the same field into the value that already holds it (a decoder re-using a struct): the structure it denotes,
	// not that structure twice
	if err := u.UnmarshalControl(s); err != nil {
		return 6
	}
	if verifDump(&u) != expect {
		return 7
	}
	return 0
}

// VerifC04Reject: s is malformed; Parse must return an error and no result.
func VerifC04Reject(s string) int {
	d, err := Parse(s)
	if err == nil {
		return 1
	}
	if d != nil {
		return 2
	}
	var u Dependency
	if err := u.UnmarshalControl(s); err == nil {
		return 3
	}
	return 0
}

// ---------------------------------------------------------------- C06

func specIsAll(a Arch) bool { return a.ABI == "all" && a.OS == "all" && a.CPU == "all" }

func specIsWild(a Arch) bool { return a.ABI == "any" || a.OS == "any" || a.CPU == "any" }

// specMatch: concrete c matches pattern p iff every component of p is "any" or equals c's.
func specMatch(c, p Arch) bool {
	return (p.ABI == "any" || p.ABI == c.ABI) && (p.OS == "any" || p.OS == c.OS) && (p.CPU == "any" || p.CPU == c.CPU)
}

// specIs: the statement's matching relation for two architectures of which at least one is concrete
// (or the atomic "all"); ok=false when the statement says nothing (wildcard against wildcard).
func specIs(a, b Arch) (result bool, ok bool) {
	if specIsAll(a) || specIsAll(b) {
		return specIsAll(a) && specIsAll(b), true
	}
	if !specIsWild(a) {
		return specMatch(a, b), true
	}
	if !specIsWild(b) {
		return specMatch(b, a), true
	}
	return false, false
}

// VerifC06Is: Arch.Is agrees with the statement and is symmetric.
func VerifC06Is(aA, aO, aC, bA, bO, bC string) int {
	a := Arch{ABI: aA, OS: aO, CPU: aC}
	b := Arch{ABI: bA, OS: bO, CPU: bC}
	want, ok := specIs(a, b)
	if !ok {
		return 0
	}
	if a.Is(&b) != want {
		return 1
	}
	if b.Is(&a) != want {
		return 2
	}
	return 0
}

// VerifC06Set: a bracketed list of n entries admits `o` iff (some entry matches) != negated; empty admits all.
func VerifC06Set(n int, not bool, e0A, e0O, e0C, e1A, e1O, e1C, e2A, e2O, e2C, oA, oO, oC string) int {
	all := []Arch{{e0A, e0O, e0C}, {e1A, e1O, e1C}, {e2A, e2O, e2C}}
	set := ArchSet{Not: not, Architectures: all[:n]}
	o := Arch{oA, oO, oC}
	some := false
	for i := 0; i < n; i++ {
		m, ok := specIs(all[i], o)
		if !ok {
			return 0
		}
		if m {
			some = true
		}
	}
	want := true
	if n > 0 {
		want = some != not
	}
	if set.Matches(&o) != want {
		return 1
	}
	return 0
}

// VerifC06Select: 2 relations x 3 alternatives; alternative k is a substvar iff sv[k], otherwise it carries an
// architecture list that is empty (emp[k]) or holds one entry ent[k] with negation flag not[k].
//
// Alternative k additionally carries a multiarch qualifier ("name:q") iff qf[k], a version constraint iff vr[k] and
// a build-profile restriction iff st[k]: none of these takes part in the selection, and the selected alternative is
// returned with all of them intact.
func VerifC06Select(sv0, sv1, sv2, sv3, sv4, sv5, emp0, emp1, emp2, emp3, emp4, emp5, not0, not1, not2, not3, not4, not5 bool,
	e0, e1, e2, e3, e4, e5, o string,
	qf0, qf1, qf2, qf3, qf4, qf5, vr0, vr1, vr2, vr3, vr4, vr5, st0, st1, st2, st3, st4, st5 bool, q string, nm string) int {
	qf := []bool{qf0, qf1, qf2, qf3, qf4, qf5}
	vr := []bool{vr0, vr1, vr2, vr3, vr4, vr5}
	stg := []bool{st0, st1, st2, st3, st4, st5}
	built := make([]Possibility, 6)
	sv := []bool{sv0, sv1, sv2, sv3, sv4, sv5}
	emp := []bool{emp0, emp1, emp2, emp3, emp4, emp5}
	not := []bool{not0, not1, not2, not3, not4, not5}
	ent := []string{e0, e1, e2, e3, e4, e5}
	// nm: six package names of one character each (alternatives may share a name: "foo (>= 1), foo (<< 2)")
	names := []string{nm[0:1], nm[1:2], nm[2:3], nm[3:4], nm[4:5], nm[5:6]}
	arch := Arch{"gnu", "linux", o}
	wantSelIdx, wantAllIdx := []int{}, []int{}
	dep := &Dependency{}
	wantSel := []string{}
	wantAll := []string{}
	wantSub := []string{}
	for r := 0; r < 2; r++ {
		rel := Relation{}
		chosen := false
		for k := 3 * r; k < 3*r+3; k++ {
			if sv[k] {
				rel.Possibilities = append(rel.Possibilities, Possibility{Name: names[k], Substvar: true})
				wantSub = append(wantSub, names[k])
				continue
			}
			set := &ArchSet{Not: not[k], Architectures: []Arch{}}
			admits := true
			if !emp[k] {
				e := Arch{"gnu", "linux", ent[k]}
				set.Architectures = append(set.Architectures, e)
				admits = (e.CPU == arch.CPU) != not[k]
			}
			p := Possibility{Name: names[k], Architectures: set, StageSets: []StageSet{}}
			if qf[k] {
				p.Arch = &Arch{"gnu", "linux", q}
			}
			if vr[k] {
				p.Version = &VersionRelation{Number: "1", Operator: ">="}
			}
			if stg[k] {
				p.StageSets = append(p.StageSets, StageSet{Stages: []Stage{{Name: "nocheck", Not: true}}})
			}
			built[k] = p
			rel.Possibilities = append(rel.Possibilities, p)
			wantAll = append(wantAll, names[k])
			wantAllIdx = append(wantAllIdx, k)
			if admits && !chosen {
				chosen = true
				wantSel = append(wantSel, names[k])
				wantSelIdx = append(wantSelIdx, k)
			}
		}
		dep.Relations = append(dep.Relations, rel)
	}
	check := func(got []Possibility, want []string, idx []int, subst bool) bool {
		if len(got) != len(want) {
			return false
		}
		for i := range got {
			if got[i].Name != want[i] || got[i].Substvar != subst {
				return false
			}
			if subst {
				continue
			}
			k := idx[i]
			if got[i].Arch != built[k].Arch || got[i].Version != built[k].Version ||
				got[i].Architectures != built[k].Architectures || len(got[i].StageSets) != len(built[k].StageSets) {
				return false
			}
		}
		return true
	}
	if !check(dep.GetPossibilities(arch), wantSel, wantSelIdx, false) {
		return 1
	}
	if !check(dep.GetAllPossibilities(), wantAll, wantAllIdx, false) {
		return 2
	}
	if !check(dep.GetSubstvars(), wantSub, nil, true) {
		return 3
	}
	return 0
}

// VerifC06Sat: "(op N)" is satisfied by V exactly when sign(V cmp N) is in the operator's set;
// never when N is unparsable or op is unknown.
func VerifC06Sat(op, n string, ev uint, uv, rv string) int {
	v := version.Version{Epoch: ev, Version: uv, Revision: rv}
	rel := VersionRelation{Number: n, Operator: op}
	got := rel.SatisfiedBy(v)
	if rel.SatisfiedBy(v) != got {
		return 2 // the same question, a different answer
	}
	vn, err := version.Parse(n)
	want := false
	if err == nil {
		q := version.VerifSpecCompare(v, vn)
		switch op {
		case "<<":
			want = q < 0
		case "<=":
			want = q <= 0
		case "=":
			want = q == 0
		case ">=":
			want = q >= 0
		case ">>":
			want = q > 0
		}
	}
	if got != want {
		return 1
	}
	return 0
}

var verifFuncs = map[string]interface{}{
	"VerifC05Dep":    VerifC05Dep,
	"VerifC05Arch":   VerifC05Arch,
	"VerifC06Is":     VerifC06Is,
	"VerifC06Set":    VerifC06Set,
	"VerifC06Select": VerifC06Select,
	"VerifC06Sat":    VerifC06Sat,
	"VerifC04Accept": VerifC04Accept,
	"VerifC04Reject": VerifC04Reject,
}

// ---------------------------------------------------------------- C18

// VerifC18Dep: Parse returns a value or an error, never both, and the same thing when called again.
func VerifC18Dep(s string) int {
	d1, e1 := Parse(s)
	if (e1 != nil) == (d1 != nil) {
		return 1
	}
	d2, e2 := Parse(s)
	if (e1 == nil) != (e2 == nil) {
		return 2
	}
	if e1 == nil && verifDump(d1) != verifDump(d2) {
		return 3
	}
	return 0
}

// VerifC18Arch: ParseArch / ParseArchitectures return and are repeatable.
func VerifC18Arch(s string) int {
	a1, e1 := ParseArch(s)
	if e1 == nil && a1 == nil {
		return 1
	}
	a2, e2 := ParseArch(s)
	if (e1 == nil) != (e2 == nil) || (e1 == nil && !eqArchP(a1, a2)) {
		return 2
	}
	l1, e3 := ParseArchitectures(s)
	l2, e4 := ParseArchitectures(s)
	if (e3 == nil) != (e4 == nil) || len(l1) != len(l2) {
		return 3
	}
	if e3 != nil && l1 != nil {
		return 4
	}
	for i := range l1 {
		if !eqArchP(&l1[i], &l2[i]) {
			return 5
		}
	}
	return 0
}

func init() {
	verifFuncs["VerifC18Dep"] = VerifC18Dep
	verifFuncs["VerifC18Arch"] = VerifC18Arch
}
