//go:build verif

package control

import (
	"bufio"
	"strconv"
	"strings"

	"pault.ag/go/debian/dependency"
	"pault.ag/go/debian/version"
)

// ---------------------------------------------------------------- C10: canonical dumps of the typed documents

func dStrs(l []string) string { return "[" + strings.Join(l, "|") + "]" }

func dArch(a dependency.Arch) string { return a.ABI + "/" + a.OS + "/" + a.CPU }

func dArchs(l []dependency.Arch) string {
	out := []string{}
	for _, a := range l {
		out = append(out, dArch(a))
	}
	return dStrs(out)
}

func dVer(v version.Version) string {
	return strconv.FormatUint(uint64(v.Epoch), 10) + ":" + v.Version + "-" + v.Revision
}

func dDep(d dependency.Dependency) string { return dependency.VerifDump(&d) }

func dHash(h FileHash) string {
	return h.Algorithm + ":" + h.Hash + ":" + strconv.FormatInt(h.Size, 10) + ":" + h.Filename + ":" + h.ByHash
}

func dBool(b bool) string {
	if b {
		return "yes"
	}
	return "no"
}

type verifDumper struct{ out string }

func (d *verifDumper) add(k, v string) { d.out += k + "=" + v + "\x00" }

func dumpDSC(c *DSC) string {
	d := &verifDumper{}
	d.add("Filename", c.Filename)
	d.add("Format", c.Format)
	d.add("Source", c.Source)
	d.add("Binaries", dStrs(c.Binaries))
	d.add("Architectures", dArchs(c.Architectures))
	d.add("Version", dVer(c.Version))
	d.add("Origin", c.Origin)
	d.add("Maintainer", c.Maintainer)
	d.add("Uploaders", dStrs(c.Uploaders))
	d.add("Homepage", c.Homepage)
	d.add("StandardsVersion", c.StandardsVersion)
	d.add("BuildDepends", dDep(c.BuildDepends))
	d.add("BuildDependsArch", dDep(c.BuildDependsArch))
	d.add("BuildDependsIndep", dDep(c.BuildDependsIndep))
	hs := []string{}
	for _, h := range c.ChecksumsSha1 {
		hs = append(hs, dHash(h.FileHash))
	}
	d.add("ChecksumsSha1", dStrs(hs))
	hs = []string{}
	for _, h := range c.ChecksumsSha256 {
		hs = append(hs, dHash(h.FileHash))
	}
	d.add("ChecksumsSha256", dStrs(hs))
	hs = []string{}
	for _, h := range c.Files {
		hs = append(hs, dHash(h.FileHash))
	}
	d.add("Files", dStrs(hs))
	// accessors
	d.add("Maintainers()", dStrs(c.Maintainers()))
	d.add("HasArchAll()", dBool(c.HasArchAll()))
	hs = []string{}
	for _, h := range c.AbsFiles() {
		hs = append(hs, h.Filename)
	}
	d.add("AbsFiles()", dStrs(hs))
	ds, err := c.DebianSource()
	if err != nil {
		ds = "<error>"
	}
	d.add("DebianSource()", ds)
	d.add("Raw", dStrs(c.Paragraph.Order))
	return d.out
}

// VerifC10Dsc: a .dsc in the real layout decodes to exactly the model.
func VerifC10Dsc(doc, path, expect string) int {
	c, err := ParseDsc(bufio.NewReader(strings.NewReader(doc)), path)
	if err != nil {
		return 1
	}
	if c == nil {
		return 2
	}
	if dumpDSC(c) != expect {
		return 3
	}
	return 0
}

func dumpChanges(c *Changes) string {
	d := &verifDumper{}
	d.add("Filename", c.Filename)
	d.add("Format", c.Format)
	d.add("Source", c.Source)
	d.add("Binaries", dStrs(c.Binaries))
	d.add("Architectures", dArchs(c.Architectures))
	d.add("Version", dVer(c.Version))
	d.add("Origin", c.Origin)
	d.add("Distribution", c.Distribution)
	d.add("Urgency", c.Urgency)
	d.add("Maintainer", c.Maintainer)
	d.add("ChangedBy", c.ChangedBy)
	d.add("Closes", dStrs(c.Closes))
	d.add("Changes", strings.TrimSuffix(c.Changes, "\n"))
	hs := []string{}
	for _, h := range c.ChecksumsSha1 {
		hs = append(hs, dHash(h.FileHash))
	}
	d.add("ChecksumsSha1", dStrs(hs))
	hs = []string{}
	for _, h := range c.ChecksumsSha256 {
		hs = append(hs, dHash(h.FileHash))
	}
	d.add("ChecksumsSha256", dStrs(hs))
	hs = []string{}
	for _, h := range c.Files {
		hs = append(hs, dHash(h.FileHash)+":"+h.Component+":"+h.Priority)
	}
	d.add("Files", dStrs(hs))
	hs = []string{}
	for _, h := range c.AbsFiles() {
		hs = append(hs, h.Filename)
	}
	d.add("AbsFiles()", dStrs(hs))
	return d.out
}

// VerifC10Changes: a .changes in the real layout decodes to exactly the model.
func VerifC10Changes(doc, path, expect string) int {
	c, err := ParseChanges(bufio.NewReader(strings.NewReader(doc)), path)
	if err != nil {
		return 1
	}
	if c == nil {
		return 2
	}
	if dumpChanges(c) != expect {
		return 3
	}
	return 0
}

func dumpControl(c *Control) string {
	d := &verifDumper{}
	s := &c.Source
	d.add("Filename", c.Filename)
	d.add("Maintainer", s.Maintainer)
	d.add("Uploaders", dStrs(s.Uploaders))
	d.add("Source", s.Source)
	d.add("Priority", s.Priority)
	d.add("Section", s.Section)
	d.add("Description", strings.TrimSuffix(s.Description, "\n"))
	d.add("BuildDepends", dDep(s.BuildDepends))
	d.add("BuildDependsIndep", dDep(s.BuildDependsIndep))
	d.add("BuildConflicts", dDep(s.BuildConflicts))
	d.add("BuildConflictsIndep", dDep(s.BuildConflictsIndep))
	d.add("Maintainers()", dStrs(s.Maintainers()))
	for i := range c.Binaries {
		b := &c.Binaries[i]
		d.add("B.Architectures", dArchs(b.Architectures))
		d.add("B.Package", b.Package)
		d.add("B.Priority", b.Priority)
		d.add("B.Section", b.Section)
		d.add("B.Essential", dBool(b.Essential))
		d.add("B.Description", strings.TrimSuffix(b.Description, "\n"))
		hs := []string{}
		for _, h := range b.Conffiles {
			hs = append(hs, dHash(h.FileHash))
		}
		d.add("B.Conffiles", dStrs(hs))
		d.add("B.Depends", dDep(b.Depends))
		d.add("B.Recommends", dDep(b.Recommends))
		d.add("B.Suggests", dDep(b.Suggests))
		d.add("B.Enhances", dDep(b.Enhances))
		d.add("B.PreDepends", dDep(b.PreDepends))
		d.add("B.Breaks", dDep(b.Breaks))
		d.add("B.Conflicts", dDep(b.Conflicts))
		d.add("B.Replaces", dDep(b.Replaces))
		d.add("B.BuiltUsing", dDep(b.BuiltUsing))
	}
	return d.out
}

// VerifC10Control: a debian/control file decodes to exactly the model (source paragraph, then the binaries).
func VerifC10Control(doc, path, expect string) int {
	c, err := ParseControl(bufio.NewReader(strings.NewReader(doc)), path)
	if err != nil {
		return 1
	}
	if c == nil {
		return 2
	}
	if dumpControl(c) != expect {
		return 3
	}
	return 0
}

func dumpBinaryIndex(b *BinaryIndex) string {
	d := &verifDumper{}
	d.add("Package", b.Package)
	d.add("Source", b.Source)
	d.add("Version", dVer(b.Version))
	d.add("InstalledSize", strconv.Itoa(b.InstalledSize))
	d.add("Maintainer", b.Maintainer)
	d.add("Architecture", dArch(b.Architecture))
	d.add("MultiArch", b.MultiArch)
	d.add("Description", strings.TrimSuffix(b.Description, "\n"))
	d.add("Homepage", b.Homepage)
	d.add("DescriptionMD5", b.DescriptionMD5)
	d.add("Tags", dStrs(b.Tags))
	d.add("Section", b.Section)
	d.add("Priority", b.Priority)
	d.add("Filename", b.Filename)
	d.add("Size", strconv.Itoa(b.Size))
	d.add("MD5sum", b.MD5sum)
	d.add("SHA1", b.SHA1)
	d.add("SHA256", b.SHA256)
	d.add("DebugBuildIds", dStrs(b.DebugBuildIds))
	d.add("SourcePackage()", b.SourcePackage())
	d.add("GetDepends()", dDep(b.GetDepends()))
	d.add("GetConflicts()", dDep(b.GetConflicts()))
	d.add("GetPreDepends()", dDep(b.GetPreDepends()))
	return d.out
}

// VerifC10Packages: a Packages index decodes to exactly the model, entry by entry.
func VerifC10Packages(doc, expect string) int {
	l, err := ParseBinaryIndex(bufio.NewReader(strings.NewReader(doc)))
	if err != nil {
		return 1
	}
	got := ""
	for i := range l {
		got += "#" + dumpBinaryIndex(&l[i])
	}
	if got != expect {
		return 3
	}
	return 0
}

func dumpSourceIndex(s *SourceIndex) string {
	d := &verifDumper{}
	d.add("Package", s.Package)
	d.add("Binaries", dStrs(s.Binaries))
	d.add("Version", dVer(s.Version))
	d.add("Maintainer", s.Maintainer)
	d.add("Uploaders", s.Uploaders)
	d.add("Architecture", dArchs(s.Architecture))
	d.add("StandardsVersion", s.StandardsVersion)
	d.add("Format", s.Format)
	hs := []string{}
	for _, h := range s.Files {
		hs = append(hs, dHash(h.FileHash))
	}
	d.add("Files", dStrs(hs))
	d.add("VcsBrowser", s.VcsBrowser)
	d.add("VcsGit", s.VcsGit)
	hs = []string{}
	for _, h := range s.ChecksumsSha1 {
		hs = append(hs, dHash(h.FileHash))
	}
	d.add("ChecksumsSha1", dStrs(hs))
	hs = []string{}
	for _, h := range s.ChecksumsSha256 {
		hs = append(hs, dHash(h.FileHash))
	}
	d.add("ChecksumsSha256", dStrs(hs))
	d.add("Homepage", s.Homepage)
	d.add("Directory", s.Directory)
	d.add("Priority", s.Priority)
	d.add("Section", s.Section)
	d.add("GetBuildDepends()", dDep(s.GetBuildDepends()))
	d.add("GetBuildDependsIndep()", dDep(s.GetBuildDependsIndep()))
	return d.out
}

// VerifC10Sources: a Sources index decodes to exactly the model, entry by entry.
func VerifC10Sources(doc, expect string) int {
	l, err := ParseSourceIndex(bufio.NewReader(strings.NewReader(doc)))
	if err != nil {
		return 1
	}
	got := ""
	for i := range l {
		got += "#" + dumpSourceIndex(&l[i])
	}
	if got != expect {
		return 3
	}
	return 0
}

type verifBest struct {
	BestChecksums
}

// VerifC10Best: the best-checksum selector returns the entries of the strongest field present, tagged with that
// field's algorithm.
func VerifC10Best(doc, expect string) int {
	var b verifBest
	if err := Unmarshal(&b, strings.NewReader(doc)); err != nil {
		return 1
	}
	hs := []string{}
	for _, h := range b.Checksums() {
		hs = append(hs, dHash(h))
	}
	if dStrs(hs) != expect {
		return 3
	}
	return 0
}

func init() {
	verifFuncs["VerifC10Dsc"] = VerifC10Dsc
	verifFuncs["VerifC10Changes"] = VerifC10Changes
	verifFuncs["VerifC10Control"] = VerifC10Control
	verifFuncs["VerifC10Packages"] = VerifC10Packages
	verifFuncs["VerifC10Sources"] = VerifC10Sources
	verifFuncs["VerifC10Best"] = VerifC10Best
}

// VerifC10Dump returns the canonical dump itself (used when triaging counterexamples).
func VerifC10Dump(kind, doc, path string) string {
	rd := bufio.NewReader(strings.NewReader(doc))
	switch kind {
	case "dsc":
		c, err := ParseDsc(rd, path)
		if err != nil {
			return "ERR " + err.Error()
		}
		return dumpDSC(c)
	case "changes":
		c, err := ParseChanges(rd, path)
		if err != nil {
			return "ERR " + err.Error()
		}
		return dumpChanges(c)
	case "control":
		c, err := ParseControl(rd, path)
		if err != nil {
			return "ERR " + err.Error()
		}
		return dumpControl(c)
	case "packages":
		l, err := ParseBinaryIndex(rd)
		if err != nil {
			return "ERR " + err.Error()
		}
		got := ""
		for i := range l {
			got += "#" + dumpBinaryIndex(&l[i])
		}
		return got
	case "sources":
		l, err := ParseSourceIndex(rd)
		if err != nil {
			return "ERR " + err.Error()
		}
		got := ""
		for i := range l {
			got += "#" + dumpSourceIndex(&l[i])
		}
		return got
	}
	return "?"
}

func init() { verifFuncs["VerifC10Dump"] = VerifC10Dump }
