//go:build verif

package control

import (
	"encoding/hex"
	"strings"

	"pault.ag/go/debian/hashio"
)

type verifSums struct {
	ChecksumsSha256 []SHA256FileHash `control:"Checksums-Sha256" delim:"\n" strip:"\n\r\t "`
	ChecksumsSha512 []SHA512FileHash `control:"Checksums-Sha512" delim:"\n" strip:"\n\r\t "`
}

func verifDigestHex(alg, content string) string {
	h, err := hashio.NewHasher(alg)
	if err != nil {
		return ""
	}
	h.Write([]byte(content))
	return hex.EncodeToString(h.Sum(nil))
}

// verifEntry builds a checksum entry for `recorded` (hex text) the way kind says:
// 0: parsed from a Checksums-Sha256 field   1: parsed from a Checksums-Sha512 field
// 2: through BestChecksums.Checksums() with only Sha256 present   3: ... with only Sha512 present
// 4..7: FileHashFromHasher for md5 / sha1 / sha256 / sha512 (recorded is ignored, the hasher is fed `other`)
func verifEntry(kind int, recorded, other string) (FileHash, string, bool) {
	switch kind {
	case 0, 1:
		field, alg := "Checksums-Sha256", "sha256"
		if kind == 1 {
			field, alg = "Checksums-Sha512", "sha512"
		}
		var s verifSums
		if err := Unmarshal(&s, strings.NewReader(field+":\n "+recorded+" 3 f\n")); err != nil {
			return FileHash{}, "", false
		}
		if kind == 0 && len(s.ChecksumsSha256) == 1 {
			return s.ChecksumsSha256[0].FileHash, alg, true
		}
		if kind == 1 && len(s.ChecksumsSha512) == 1 {
			return s.ChecksumsSha512[0].FileHash, alg, true
		}
		return FileHash{}, "", false
	case 2, 3:
		field, alg := "Checksums-Sha256", "sha256"
		if kind == 3 {
			field, alg = "Checksums-Sha512", "sha512"
		}
		var b verifBest
		if err := Unmarshal(&b, strings.NewReader("Origin: x\n"+field+":\n "+recorded+" 3 f\n")); err != nil {
			return FileHash{}, "", false
		}
		l := b.Checksums()
		if len(l) != 1 {
			return FileHash{}, "", false
		}
		return l[0], alg, true
	default:
		alg := []string{"md5", "sha1", "sha256", "sha512"}[kind-4]
		h, err := hashio.NewHasher(alg)
		if err != nil {
			return FileHash{}, "", false
		}
		h.Write([]byte(other))
		return FileHashFromHasher("f", *h), alg, true
	}
}

func verifUpperHex(s string) string {
	b := []byte(s)
	for i, c := range b {
		// branch-free (the digits of an uninterpreted digest are symbolic): hex letters have bit 6 set, digits do
		// not; clearing bit 5 of a letter gives its upper-case form
		b[i] = c &^ (((c >> 6) & 1) << 5)
	}
	return string(b)
}

// VerifC12Verify: the entry's verifier accepts `content` iff the digest of content under the entry's own
// algorithm equals the recorded hash.  The recorded hash is the digest of `other` under the entry's algorithm
// (kind < 4) so that equal and unequal cases are both reachable.
// upper: the recorded hash is written with upper-case hex digits (the same number).
func VerifC12Verify(kind int, content, other string, upper bool) int {
	alg0 := []string{"sha256", "sha512", "sha256", "sha512", "md5", "sha1", "sha256", "sha512"}[kind]
	recorded := verifDigestHex(alg0, other)
	if upper && kind < 4 {
		recorded = verifUpperHex(recorded)
	}
	e, alg, ok := verifEntry(kind, recorded, other)
	if !ok {
		return 1
	}
	if e.Algorithm != alg {
		return 2
	}
	if e.Hash != recorded {
		return 3
	}
	v, err := e.Verifier()
	if err != nil {
		return 4
	}
	n, err := v.Write([]byte(content))
	if err != nil || n != len(content) {
		return 5
	}
	cerr := v.Close()
	want := verifDigestHex(alg, content) == verifDigestHex(alg0, other)
	if (cerr == nil) != want {
		return 6
	}
	return 0
}

// VerifC12WrongAlg: an entry (kind 0..3) whose recorded hash is the true digest of the very content, but under
// another algorithm than the entry's own, is never accepted.
func VerifC12WrongAlg(kind int, content string, walg int) int {
	alg0 := []string{"sha256", "sha512", "sha256", "sha512"}[kind]
	w := []string{"md5", "sha1", "sha256", "sha512"}[walg]
	if w == alg0 {
		return 0
	}
	recorded := verifDigestHex(w, content)
	e, alg, ok := verifEntry(kind, recorded, content)
	if !ok {
		return 1
	}
	if e.Algorithm != alg {
		return 2
	}
	v, err := e.Verifier()
	if err != nil {
		return 0 // refused up front
	}
	if n, err := v.Write([]byte(content)); err != nil || n != len(content) {
		return 5
	}
	if v.Close() == nil {
		return 6 // accepted on the strength of a digest of another algorithm
	}
	return 0
}

// VerifC12BadHash: an odd-length or non-hex recorded hash makes Verifier fail.
func VerifC12BadHash(kind int, recorded string) int {
	e, _, ok := verifEntry(kind, recorded, "")
	if !ok {
		return 0
	}
	_, derr := hex.DecodeString(recorded)
	_, err := e.Verifier()
	if (err != nil) != (derr != nil) {
		return 1
	}
	return 0
}

// VerifC12Truncated: a recorded hash that is the true digest cut short by `cut` bytes is never accepted.
// (search: look for content, starting from the given one, whose digest ends in `cut` zero bytes - used when a
// counterexample found with uninterpreted digests is replayed against the real ones.)
func VerifC12Truncated(kind int, content string, cut int, search bool) int {
	alg := []string{"sha256", "sha512", "sha256", "sha512"}[kind]
	if search {
		for i := 0; i < 1<<20; i++ {
			c := content + string(rune('a'+i%26)) + string(rune('a'+(i/26)%26)) + string(rune('a'+(i/676)%26)) + string(rune('a'+(i/17576)%26))
			d := verifDigestHex(alg, c)
			if strings.HasSuffix(d, strings.Repeat("00", cut)) {
				content = c
				break
			}
		}
	}
	full := verifDigestHex(alg, content)
	recorded := full[:len(full)-2*cut]
	e, _, ok := verifEntry(kind, recorded, "")
	if !ok {
		return 0
	}
	v, err := e.Verifier()
	if err != nil {
		return 0 // refusing the entry outright is fine too
	}
	v.Write([]byte(content))
	if v.Close() == nil {
		return 1
	}
	return 0
}

func init() {
	verifFuncs["VerifC12Truncated"] = VerifC12Truncated
	verifFuncs["VerifC12Verify"] = VerifC12Verify
	verifFuncs["VerifC12BadHash"] = VerifC12BadHash
	verifFuncs["VerifC12WrongAlg"] = VerifC12WrongAlg
}
