//go:build verif

package control

import (
	"os"
)

// ---------------------------------------------------------------- C20

const (
	verifOK      = 0
	verifMissing = 1
	verifIsDir   = 2
	verifLink    = 3 // a relative symbolic link to the file, which lives in a subdirectory "store" next to it
)

func verifPut(path string, state int, content string) bool {
	switch state {
	case verifOK:
		return os.WriteFile(path, []byte(content), 0644) == nil
	case verifIsDir:
		return os.MkdirAll(path, 0755) == nil
	case verifLink:
		i := len(path) - 1
		for i > 0 && path[i] != '/' {
			i--
		}
		dir, base := path[:i], path[i+1:]
		return os.MkdirAll(dir+"/store", 0755) == nil && os.WriteFile(dir+"/store/"+base, []byte(content), 0644) == nil &&
			os.Symlink("store/"+base, path) == nil
	}
	return true
}

func verifIsFile(path, content string) bool {
	b, err := os.ReadFile(path)
	return err == nil && string(b) == content
}

func verifExists(path string) bool {
	_, err := os.Stat(path)
	return err == nil
}

type verifUpload interface {
	Copy(string) error
	Move(string) error
	Remove() error
}

// VerifC20Op runs Copy (op 0), Move (1) or Remove (2) on a .dsc (kind 0) or .changes (kind 1) handle with k
// referenced files.  s0..s2 give the state of each referenced file in the source directory (ok / missing /
// a directory in its place), ctl the state of the control file itself, and block (1..k for a referenced file,
// k+1 for the control file, 0 for none) puts a directory in the destination where that file would be created.
// Whatever fails: an error must leave the control file out of the destination (Move/Remove: still at its
// source); success must leave everything complete and identical at the right place.
func VerifC20Op(op, kind, k int, s0, s1, s2 int, ctl int, block int, stale int) int {
	root, err := os.MkdirTemp("", "verifc20")
	if err != nil {
		return 90
	}
	defer os.RemoveAll(root)
	src, dst := root+"/src", root+"/dst"
	if os.MkdirAll(src, 0755) != nil || os.MkdirAll(dst, 0755) != nil {
		return 91
	}
	names := []string{"f0.tar", "f1.tar", "f2.tar"}[:k]
	states := []int{s0, s1, s2}[:k]
	ctlName := "p.dsc"
	if kind == 1 {
		ctlName = "p.changes"
	}
	for i, n := range names {
		if !verifPut(src+"/"+n, states[i], "content-"+n) {
			return 92
		}
	}
	if !verifPut(src+"/"+ctlName, ctl, "control-file") {
		return 92
	}
	for i, n := range names {
		if block == i+1 {
			os.MkdirAll(dst+"/"+n, 0755)
		}
	}
	if block == k+1 {
		os.MkdirAll(dst+"/"+ctlName, 0755)
	}
	// stale (1..k): the destination already holds a file of that name and size with other bytes (an earlier
	// upload); it has to be replaced like any other
	for i, n := range names {
		if stale == i+1 && block != i+1 {
			os.WriteFile(dst+"/"+n, []byte("CONTENT-"+n), 0644)
		}
	}
	var h verifUpload
	var filename *string
	if kind == 0 {
		d := &DSC{Filename: src + "/" + ctlName}
		for _, n := range names {
			d.Files = append(d.Files, MD5FileHash{FileHash{Algorithm: "md5", Hash: "00", Size: int64(len("content-" + n)), Filename: n}})
		}
		h, filename = d, &d.Filename
	} else {
		c := &Changes{Filename: src + "/" + ctlName}
		for _, n := range names {
			c.Files = append(c.Files, FileListChangesFileHash{FileHash: FileHash{Algorithm: "md5", Hash: "00", Size: int64(len("content-" + n)), Filename: n}})
		}
		h, filename = c, &c.Filename
	}
	clean := ctl == verifOK && block == 0
	for _, s := range states {
		if s != verifOK && s != verifLink {
			clean = false
		}
	}
	switch op {
	case 0, 1:
		if op == 0 {
			err = h.Copy(dst)
		} else {
			err = h.Move(dst)
		}
		if err != nil {
			if clean {
				return 1 // nothing was wrong and yet it failed
			}
			if verifExists(dst+"/"+ctlName) && !(block == k+1) {
				return 2 // the control file is visible in the destination although the operation failed
			}
			if block == k+1 && verifIsFile(dst+"/"+ctlName, "control-file") {
				return 2
			}
			if op == 1 && ctl == verifOK && !verifIsFile(src+"/"+ctlName, "control-file") {
				return 3 // a failed move lost the control file at its source
			}
			return 0
		}
		if !clean {
			return 4 // reported success although a file could not be transferred
		}
		if *filename != dst+"/"+ctlName {
			return 5
		}
		if !verifIsFile(dst+"/"+ctlName, "control-file") {
			return 6
		}
		for _, n := range names {
			if !verifIsFile(dst+"/"+n, "content-"+n) {
				return 7
			}
			if op == 0 && !verifIsFile(src+"/"+n, "content-"+n) {
				return 8
			}
			if op == 1 && verifExists(src+"/"+n) {
				return 9
			}
		}
		if op == 1 && verifExists(src+"/"+ctlName) {
			return 9
		}
	case 2:
		err = h.Remove()
		if err != nil {
			missing := false
			for _, s := range states {
				if s == verifMissing {
					missing = true
				}
			}
			if ctl == verifOK && !verifIsFile(src+"/"+ctlName, "control-file") {
				return 10 // the control file went although removal failed
			}
			if !missing && ctl == verifOK {
				// directories in place of files can be removed too; only a missing file makes Remove fail
				return 11
			}
			return 0
		}
		if verifExists(src + "/" + ctlName) {
			return 12
		}
		for _, n := range names {
			if verifExists(src + "/" + n) {
				return 13
			}
		}
	}
	return 0
}

// VerifC20Seq: a handle is used twice - Copy into dst, then Remove (second 0), Move into dst2 (1) or Copy into dst2
// (2).  After the first step the handle stands for the copy in dst: the second step acts on that copy and leaves the
// original upload in src alone.
func VerifC20Seq(kind, k, second int) int {
	root, err := os.MkdirTemp("", "verifc20")
	if err != nil {
		return 90
	}
	defer os.RemoveAll(root)
	src, dst, dst2 := root+"/src", root+"/dst", root+"/dst2"
	if os.MkdirAll(src, 0755) != nil || os.MkdirAll(dst, 0755) != nil || os.MkdirAll(dst2, 0755) != nil {
		return 91
	}
	names := []string{"f0.tar", "f1.tar", "f2.tar"}[:k]
	ctlName := "p.dsc"
	if kind == 1 {
		ctlName = "p.changes"
	}
	for _, n := range names {
		if !verifPut(src+"/"+n, verifOK, "content-"+n) {
			return 92
		}
	}
	if !verifPut(src+"/"+ctlName, verifOK, "control-file") {
		return 92
	}
	var h verifUpload
	var filename *string
	if kind == 0 {
		d := &DSC{Filename: src + "/" + ctlName}
		for _, n := range names {
			d.Files = append(d.Files, MD5FileHash{FileHash{Algorithm: "md5", Hash: "00", Size: int64(len("content-" + n)), Filename: n}})
		}
		h, filename = d, &d.Filename
	} else {
		c := &Changes{Filename: src + "/" + ctlName}
		for _, n := range names {
			c.Files = append(c.Files, FileListChangesFileHash{FileHash: FileHash{Algorithm: "md5", Hash: "00", Size: int64(len("content-" + n)), Filename: n}})
		}
		h, filename = c, &c.Filename
	}
	if h.Copy(dst) != nil {
		return 1
	}
	if *filename != dst+"/"+ctlName {
		return 2
	}
	all := append([]string{ctlName}, names...)
	content := func(n string) string {
		if n == ctlName {
			return "control-file"
		}
		return "content-" + n
	}
	has := func(dir string) bool {
		for _, n := range all {
			if !verifIsFile(dir+"/"+n, content(n)) {
				return false
			}
		}
		return true
	}
	none := func(dir string) bool {
		for _, n := range all {
			if verifExists(dir + "/" + n) {
				return false
			}
		}
		return true
	}
	switch second {
	case 0:
		if h.Remove() != nil {
			return 3
		}
		if !has(src) {
			return 4 // the original upload was touched
		}
		if !none(dst) {
			return 5
		}
	case 1:
		if h.Move(dst2) != nil {
			return 6
		}
		if !has(src) {
			return 7
		}
		if !none(dst) || !has(dst2) {
			return 8
		}
		if *filename != dst2+"/"+ctlName {
			return 9
		}
	default:
		if h.Copy(dst2) != nil {
			return 10
		}
		if !has(src) || !has(dst) || !has(dst2) {
			return 11
		}
		if *filename != dst2+"/"+ctlName {
			return 12
		}
	}
	return 0
}

// VerifC20Confine: whatever name the control file lists, nothing outside the control file's directory is read
// into the destination, overwritten, moved or deleted.  A sentinel with the same base name lives outside.
func VerifC20Confine(op, kind int, name string) int {
	root, err := os.MkdirTemp("", "verifc20")
	if err != nil {
		return 90
	}
	defer os.RemoveAll(root)
	src, dst, out := root+"/up/src", root+"/up/dst", root+"/up"
	if os.MkdirAll(src, 0755) != nil || os.MkdirAll(dst, 0755) != nil {
		return 91
	}
	sentinels := []string{out + "/a", root + "/a", out + "/aa", src + "/a", src + "/aa"}
	for _, s := range sentinels {
		if os.WriteFile(s, []byte("sentinel:"+s), 0644) != nil {
			return 92
		}
	}
	os.WriteFile(src+"/p.dsc", []byte("control-file"), 0644)
	var h verifUpload
	if kind == 0 {
		h = &DSC{Filename: src + "/p.dsc", Files: []MD5FileHash{{FileHash{Algorithm: "md5", Hash: "00", Size: 1, Filename: name}}}}
	} else {
		h = &Changes{Filename: src + "/p.dsc", Files: []FileListChangesFileHash{{FileHash: FileHash{Algorithm: "md5", Hash: "00", Size: 1, Filename: name}}}}
	}
	switch op {
	case 0:
		h.Copy(dst)
	case 1:
		h.Move(dst)
	default:
		h.Remove()
	}
	// sentinels outside the source directory must be untouched
	for _, s := range sentinels[:3] {
		if !verifIsFile(s, "sentinel:"+s) {
			return 1
		}
	}
	// files of the source directory that the control file does not list stay where they are
	for _, n := range []string{"a", "aa"} {
		if name != n && !verifIsFile(src+"/"+n, "sentinel:"+src+"/"+n) {
			return 3
		}
	}
	if !verifExists(src) {
		return 4
	}
	// nothing from outside may have arrived in the destination
	for _, n := range []string{"a", "aa"} {
		b, err := os.ReadFile(dst + "/" + n)
		if err == nil && string(b) != "sentinel:"+src+"/"+n {
			return 2
		}
	}
	return 0
}

func init() {
	verifFuncs["VerifC20Op"] = VerifC20Op
	verifFuncs["VerifC20Confine"] = VerifC20Confine
	verifFuncs["VerifC20Seq"] = VerifC20Seq
}
