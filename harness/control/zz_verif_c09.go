//go:build verif

package control

import (
	"bytes"
	"strings"

	"pault.ag/go/debian/dependency"
	"pault.ag/go/debian/version"
)

// ---------------------------------------------------------------- C09 probe types

type verifScalars struct {
	Str     string
	Int     int
	Uint    uint
	Bool    bool
	Renamed string `control:"X-Renamed"`
	Req     string `required:"true"`
	Skip    string `control:"-"`
	Multi   string `multiline:"true"`
}

type verifLists struct {
	Words  []string
	Commas []string `control:"Comma-List" delim:", "`
	Lines  []string `delim:"\n" strip:"\n\r\t "`
}

type verifNested struct {
	Version version.Version
	Depends dependency.Dependency
	Arch    dependency.Arch
	Archs   []dependency.Arch `control:"Architecture"`
}

type verifPtr struct {
	Name string
	P    *version.Version
}

type verifEmbedded struct {
	Paragraph
	Known string
	Other string `control:"X-Other"`
}

func verifKeys(text string) ([]string, map[string]string, bool) {
	r, err := NewParagraphReader(strings.NewReader(text), nil)
	if err != nil {
		return nil, nil, false
	}
	all, err := r.All()
	if err != nil || len(all) > 1 {
		return nil, nil, false
	}
	if len(all) == 0 {
		return []string{}, map[string]string{}, true
	}
	return all[0].Order, all[0].Values, true
}

func verifHas(keys []string, k string) bool {
	for _, x := range keys {
		if x == k {
			return true
		}
	}
	return false
}

// VerifC09Scalars: marshal, unmarshal, compare field by field; optional zero fields are omitted, required ones
// always written, "-" never written.
func VerifC09Scalars(s string, i int, u uint, b bool, ren, req, skip, multi string) int {
	v := verifScalars{Str: s, Int: i, Uint: u, Bool: b, Renamed: ren, Req: req, Skip: skip, Multi: multi}
	var buf bytes.Buffer
	if err := Marshal(&buf, &v); err != nil {
		return 1
	}
	keys, _, ok := verifKeys(buf.String())
	if !ok {
		return 2
	}
	if verifHas(keys, "Str") != (s != "") || verifHas(keys, "X-Renamed") != (ren != "") || verifHas(keys, "Multi") != (multi != "") {
		return 3
	}
	if !verifHas(keys, "Req") || !verifHas(keys, "Int") || !verifHas(keys, "Uint") || !verifHas(keys, "Bool") {
		return 4
	}
	if verifHas(keys, "Skip") || verifHas(keys, "-") || verifHas(keys, "Renamed") {
		return 5
	}
	var w verifScalars
	if err := Unmarshal(&w, strings.NewReader(buf.String())); err != nil {
		return 6
	}
	if w.Str != s {
		return 7
	}
	if w.Int != i {
		return 8
	}
	if w.Uint != u {
		return 9
	}
	if w.Bool != b {
		return 10
	}
	if w.Renamed != ren || w.Req != req {
		return 11
	}
	if w.Skip != "" {
		return 12
	}
	if strings.TrimSuffix(w.Multi, "\n") != strings.TrimSuffix(multi, "\n") {
		return 13
	}
	return 0
}

// VerifC09Required: input lacking a required field is an error.
func VerifC09Required(name, val string) int {
	var w verifScalars
	err := Unmarshal(&w, strings.NewReader(name+": "+val+"\n"))
	if name == "Req" {
		if err != nil {
			return 1
		}
		if w.Req != val {
			return 2
		}
		return 0
	}
	if err == nil {
		return 3
	}
	return 0
}

func eqStrings(a, b []string) bool {
	if len(a) != len(b) {
		return false
	}
	for i := range a {
		if a[i] != b[i] {
			return false
		}
	}
	return true
}

// VerifC09Lists: delimiter-separated lists of nw / nc / nl elements round-trip; empty lists are omitted.
func VerifC09Lists(nw, nc, nl int, w0, w1, w2, c0, c1, c2, l0, l1, l2 string) int {
	v := verifLists{Words: []string{w0, w1, w2}[:nw], Commas: []string{c0, c1, c2}[:nc], Lines: []string{l0, l1, l2}[:nl]}
	var buf bytes.Buffer
	if err := Marshal(&buf, &v); err != nil {
		return 1
	}
	keys, _, ok := verifKeys(buf.String())
	if !ok {
		return 2
	}
	if verifHas(keys, "Words") != (nw > 0) || verifHas(keys, "Comma-List") != (nc > 0) || verifHas(keys, "Lines") != (nl > 0) {
		return 3
	}
	var w verifLists
	if nw+nc+nl > 0 {
		if err := Unmarshal(&w, strings.NewReader(buf.String())); err != nil {
			return 4
		}
	}
	if !eqStrings(w.Words, v.Words) {
		return 5
	}
	if !eqStrings(w.Commas, v.Commas) {
		return 6
	}
	if !eqStrings(w.Lines, v.Lines) {
		return 7
	}
	return 0
}

// VerifC09Nested: nested custom types (version, dependency, architecture, architecture list) round-trip.
func VerifC09Nested(ver, dep, arch string, na int, a0, a1 string) int {
	var v verifNested
	if err := v.Version.UnmarshalControl(ver); err != nil {
		return 0
	}
	if err := v.Depends.UnmarshalControl(dep); err != nil {
		return 0
	}
	if err := v.Arch.UnmarshalControl(arch); err != nil {
		return 0
	}
	for _, a := range []string{a0, a1}[:na] {
		p, err := dependency.ParseArch(a)
		if err != nil {
			return 0
		}
		v.Archs = append(v.Archs, *p)
	}
	var buf bytes.Buffer
	if err := Marshal(&buf, &v); err != nil {
		return 1
	}
	var w verifNested
	if err := Unmarshal(&w, strings.NewReader(buf.String())); err != nil {
		return 2
	}
	if w.Version != v.Version {
		return 3
	}
	if w.Depends.String() != v.Depends.String() || len(w.Depends.Relations) != len(v.Depends.Relations) {
		return 4
	}
	if w.Arch != v.Arch {
		return 5
	}
	if len(w.Archs) != len(v.Archs) {
		return 6
	}
	for i := range w.Archs {
		if w.Archs[i] != v.Archs[i] {
			return 7
		}
	}
	return 0
}

// VerifC09Ptr: marshalling a struct with a pointer field never panics, nil or not.
func VerifC09Ptr(name string, isNil bool, ver string) int {
	v := verifPtr{Name: name}
	if !isNil {
		p, err := version.Parse(ver)
		if err != nil {
			return 0
		}
		v.P = &p
	}
	var buf bytes.Buffer
	if err := Marshal(&buf, &v); err != nil {
		return 1
	}
	keys, vals, ok := verifKeys(buf.String())
	if !ok {
		return 2
	}
	if verifHas(keys, "P") != !isNil {
		return 3
	}
	if !isNil && vals["P"] != v.P.String() {
		return 4
	}
	return 0
}

// VerifC09Embedded: unknown fields pass through unchanged and in order; known fields (plain and renamed)
// reflect the struct's current values, also when they were emptied.
func VerifC09Embedded(xa, known, xb, other, newKnown, newOther string) int {
	doc := "X-a: " + xa + "\nKnown: " + known + "\nX-b: " + xb + "\nX-Other: " + other + "\n"
	var v verifEmbedded
	if err := Unmarshal(&v, strings.NewReader(doc)); err != nil {
		return 1
	}
	if v.Known != known || v.Other != other {
		return 2
	}
	if v.Values["X-a"] != xa || v.Values["X-b"] != xb || len(v.Order) != 4 {
		return 3
	}
	v.Known = newKnown
	v.Other = newOther
	var buf bytes.Buffer
	if err := Marshal(&buf, &v); err != nil {
		return 4
	}
	keys, vals, ok := verifKeys(buf.String())
	if !ok {
		return 5
	}
	want := []string{"X-a"}
	if newKnown != "" {
		want = append(want, "Known")
	}
	want = append(want, "X-b")
	if newOther != "" {
		want = append(want, "X-Other")
	}
	if !eqStrings(keys, want) {
		return 6
	}
	if vals["X-a"] != xa || vals["X-b"] != xb {
		return 7
	}
	if newKnown != "" && vals["Known"] != newKnown {
		return 8
	}
	if newOther != "" && vals["X-Other"] != newOther {
		return 9
	}
	return 0
}

func init() {
	verifFuncs["VerifC09Scalars"] = VerifC09Scalars
	verifFuncs["VerifC09Required"] = VerifC09Required
	verifFuncs["VerifC09Lists"] = VerifC09Lists
	verifFuncs["VerifC09Nested"] = VerifC09Nested
	verifFuncs["VerifC09Ptr"] = VerifC09Ptr
	verifFuncs["VerifC09Embedded"] = VerifC09Embedded
}
