//go:build verif

package control

import (
	"bytes"
	"strings"
	"sync"

	"golang.org/x/crypto/openpgp"
	"golang.org/x/crypto/openpgp/clearsign"
)

// ---------------------------------------------------------------- C11
// verifKey and verifClearsign are real natively (generated RSA keys, real clearsign.Encode) and modelled in the
// symbolic run (abstract entities, an abstract armour whose signature token names the key and the signed text).

var (
	verifKeyMu   sync.Mutex
	verifPGPKeys = map[int]*openpgp.Entity{}
)

func verifKey(i int) *openpgp.Entity {
	verifKeyMu.Lock()
	defer verifKeyMu.Unlock()
	if e, ok := verifPGPKeys[i]; ok {
		return e
	}
	e, err := openpgp.NewEntity("verif", "", "verif@example.org", nil)
	if err != nil {
		panic(err)
	}
	verifPGPKeys[i] = e
	return e
}

func verifClearsign(text string, key int) string {
	var buf bytes.Buffer
	w, err := clearsign.Encode(&buf, verifKey(key).PrivateKey, nil)
	if err != nil {
		panic(err)
	}
	w.Write([]byte(text))
	w.Close()
	return buf.String()
}

// keyring modes: 1 empty, 2 {key 0}, 3 {key 1}, 4 {key 0, key 1}, 5 the zero value (a nil list, as
// openpgp.ReadKeyRing gives for an empty keyring file)
func verifKeyring(mode int) *openpgp.EntityList {
	if mode == 5 {
		var zero openpgp.EntityList
		return &zero
	}
	kr := openpgp.EntityList{}
	if mode == 2 || mode == 4 {
		kr = append(kr, verifKey(0))
	}
	if mode == 3 || mode == 4 {
		kr = append(kr, verifKey(1))
	}
	return &kr
}

func verifPlainDump(text string) (string, bool) {
	r, err := NewParagraphReader(strings.NewReader(text), nil)
	if err != nil {
		return "", false
	}
	all, err := r.All()
	if err != nil {
		return "", false
	}
	out := ""
	for i := range all {
		out += dumpParagraph(&all[i])
	}
	return out, true
}

// VerifC11Signed: text is clearsigned by key `signer`, optionally damaged (tamper 1 substitute the byte at pos by nb,
// 2 delete it, 3 insert nb before it, 4 cut the document at pos, 5 append foreign text, 6 put foreign text in
// front), and read with the given keyring.  Acceptance implies: the signer is in the keyring, the paragraphs are
// exactly those of the signed text, and the reported signer is the signing key.  An undamaged document signed
// by a key of the keyring must be accepted.  Input that does not start with the armour reports no signer.
func VerifC11Signed(text string, signer, keyring, tamper, pos int, nb byte, viaDecoder bool) int {
	doc := verifClearsign(text, signer)
	if tamper == 1 && pos < 0 {
		// replay of a counterexample found on the abstract armour, whose byte positions are not those of the real
		// one: look for a substitution inside the real signature block that gives a non-zero verdict
		start := strings.Index(doc, "-----BEGIN PGP SIGNATURE-----")
		const b64 = "ABCDEFGHIJKLMNOPQRSTUVWXYZabcdefghijklmnopqrstuvwxyz0123456789+/="
		for p := start; p >= 0 && p < len(doc); p++ {
			for i := 0; i < len(b64); i++ {
				if doc[p] == b64[i] || doc[p] == '\n' || doc[p] == '-' {
					continue
				}
				if r := verifC11Check(doc[:p]+b64[i:i+1]+doc[p+1:], text, signer, keyring, tamper, viaDecoder); r != 0 {
					return r
				}
			}
		}
		return 0
	}
	switch tamper {
	case 1:
		if pos >= len(doc) || doc[pos] == nb {
			return 0
		}
		doc = doc[:pos] + string([]byte{nb}) + doc[pos+1:]
	case 2:
		if pos >= len(doc) {
			return 0
		}
		doc = doc[:pos] + doc[pos+1:]
	case 3:
		if pos > len(doc) {
			return 0
		}
		doc = doc[:pos] + string([]byte{nb}) + doc[pos:]
	case 4:
		if pos >= len(doc) {
			return 0
		}
		doc = doc[:pos]
	case 5:
		doc = doc + "\nEvil: appended\n"
	case 6:
		doc = "Evil: prepended\n\n" + doc
	}
	if r := verifC11Check(doc, text, signer, keyring, tamper, viaDecoder); r != 0 {
		return r
	}
	return 0
}

func verifC11Check(doc, text string, signer, keyring, tamper int, viaDecoder bool) int {
	kr := verifKeyring(keyring)
	want, wok := verifPlainDump(text)
	var r *ParagraphReader
	var err error
	var sgn *openpgp.Entity
	if viaDecoder {
		var d *Decoder
		d, err = NewDecoder(strings.NewReader(doc), kr)
		if err == nil {
			r = &d.paragraphReader
			sgn = d.Signer()
		}
	} else {
		r, err = NewParagraphReader(strings.NewReader(doc), kr)
		if err == nil {
			sgn = r.Signer()
		}
	}
	inKeyring := (signer == 0 && (keyring == 2 || keyring == 4)) || (signer == 1 && (keyring == 3 || keyring == 4))
	if tamper == 6 || !strings.HasPrefix(doc, "-----BEGIN PGP ") {
		// does not start with the armour marker: it is plain input, and whatever comes out, no signer is reported
		if err == nil && sgn != nil {
			return 1
		}
		return 0
	}
	if err != nil {
		if r != nil {
			return 2
		}
		if tamper == 0 && inKeyring {
			return 3 // a good document signed by a key of the keyring was refused
		}
		return 0
	}
	// accepted
	if !inKeyring {
		return 4
	}
	if sgn != verifKey(signer) {
		return 5
	}
	all, rerr := r.All()
	if rerr != nil {
		if tamper == 0 && wok {
			return 6
		}
		return 0
	}
	got := ""
	for i := range all {
		got += dumpParagraph(&all[i])
	}
	if !wok || got != want {
		return 7 // something other than the signed text reached the caller
	}
	if tamper == 0 {
		// the same bytes once more, with a keyring that holds no key: the earlier acceptance must not carry over
		if _, err2 := NewParagraphReader(strings.NewReader(doc), verifKeyring(1)); err2 == nil {
			return 8
		}
	}
	return 0
}

// VerifC11Unsigned: plain input never reports a signer, keyring or not.
func VerifC11Unsigned(doc string, keyring int) int {
	r, err := NewParagraphReader(strings.NewReader(doc), verifKeyring(keyring))
	if err != nil {
		return 0
	}
	if r.Signer() != nil {
		return 1
	}
	return 0
}

func init() {
	verifFuncs["VerifC11Signed"] = VerifC11Signed
	verifFuncs["VerifC11Unsigned"] = VerifC11Unsigned
}
