//go:build verif

package control

// Harness code for the solver-based checks (injected by overlay; never part of /repo).

import (
	"bytes"
	"io"
	"strings"
)

// ---------------------------------------------------------------- C07

// normValue: the logical text of a field value: one trailing newline (which the reader adds to every
// folded value) is not significant.
func normValue(v string) string {
	return strings.TrimSuffix(v, "\n")
}

func dumpParagraph(p *Paragraph) string {
	out := "P"
	for _, k := range p.Order {
		out += k + "\x00" + normValue(p.Values[k]) + "\x00"
	}
	return out
}

func checkParagraph(p *Paragraph) int {
	if p == nil {
		return 1
	}
	if len(p.Values) != len(p.Order) {
		return 2
	}
	for i, k := range p.Order {
		if _, ok := p.Values[k]; !ok {
			return 3
		}
		for j := 0; j < i; j++ {
			if p.Order[j] == k {
				return 4
			}
		}
	}
	return 0
}

// VerifC07Inv: for any input, every paragraph returned has a value for exactly the fields it lists,
// each listed once; an error comes without a paragraph.
func VerifC07Inv(s string) int {
	r, err := NewParagraphReader(strings.NewReader(s), nil)
	if err != nil {
		return 0
	}
	for n := 0; n < len(s)+2; n++ {
		p, err := r.Next()
		if err != nil {
			if p != nil {
				return 5
			}
			return 0
		}
		if c := checkParagraph(p); c != 0 {
			return c
		}
	}
	return 6 // more paragraphs than bytes: the reader does not make progress
}

// VerifC07Doc: doc is a well-formed deb822 document, expect the canonical dump of its paragraphs.
// Reading paragraph by paragraph and reading all at once must both give exactly that.
func VerifC07Doc(doc, expect string) int {
	r, err := NewParagraphReader(strings.NewReader(doc), nil)
	if err != nil {
		return 10
	}
	got := ""
	for n := 0; ; n++ {
		p, err := r.Next()
		if err == io.EOF {
			break
		}
		if err != nil {
			return 11
		}
		if c := checkParagraph(p); c != 0 {
			return 11 + c
		}
		got += dumpParagraph(p)
		if n > len(doc) {
			return 17
		}
	}
	if got != expect {
		return 18
	}
	r2, err := NewParagraphReader(strings.NewReader(doc), nil)
	if err != nil {
		return 20
	}
	all, err := r2.All()
	if err != nil {
		return 21
	}
	got2 := ""
	for i := range all {
		got2 += dumpParagraph(&all[i])
	}
	if got2 != expect {
		return 22
	}
	return 0
}

type verifRaw struct {
	Paragraph
}

// VerifC07Slice: decoding into a slice of structs that embed the raw paragraph sees the same sequence.
func VerifC07Slice(doc, expect string) int {
	var out []verifRaw
	if err := Unmarshal(&out, strings.NewReader(doc)); err != nil {
		return 30
	}
	got := ""
	for i := range out {
		if c := checkParagraph(&out[i].Paragraph); c != 0 {
			return 30 + c
		}
		got += dumpParagraph(&out[i].Paragraph)
	}
	if got != expect {
		return 38
	}
	return 0
}

// ---------------------------------------------------------------- C08

// verifValidValue: v is a sequence of text lines a field can hold: the first line has no outer blanks, no
// line has trailing blanks, no line is exactly "." (deb822 cannot represent it); empty lines are fine.
func verifValidValue(v string) bool {
	lines := strings.Split(normValue(v), "\n")
	for i, l := range lines {
		if l == "." {
			return false
		}
		if len(l) > 0 && (l[len(l)-1] == ' ' || l[len(l)-1] == '\t' || l[len(l)-1] == '\r') {
			return false
		}
		if i == 0 && len(l) > 0 && (l[0] == ' ' || l[0] == '\t') {
			return false
		}
		if strings.ContainsAny(l, "\r") {
			return false
		}
	}
	return true
}

func verifBlankLineInside(text string) bool {
	// text is a written paragraph: every line but the terminating one must hold something visible
	body := strings.TrimSuffix(text, "\n")
	for _, l := range strings.Split(body, "\n") {
		if strings.Trim(l, " \t\r") == "" {
			return true
		}
	}
	return false
}

// VerifC08Value: a one-field paragraph with value v written and read back keeps its content, the written form
// has no blank line, and a second cycle is the identity.
func VerifC08Value(v string) int {
	if !verifValidValue(v) {
		return 0
	}
	p := Paragraph{Values: map[string]string{"K": v}, Order: []string{"K"}}
	var buf bytes.Buffer
	if err := p.WriteTo(&buf); err != nil {
		return 1
	}
	text := buf.String()
	if verifBlankLineInside(text) {
		return 2
	}
	r, err := NewParagraphReader(strings.NewReader(text), nil)
	if err != nil {
		return 3
	}
	all, err := r.All()
	if err != nil {
		return 4
	}
	if len(all) != 1 {
		return 5
	}
	if len(all[0].Order) != 1 || all[0].Order[0] != "K" {
		return 6
	}
	// A value in the reader's own folded form (ending in a newline) must come back line for line.  Otherwise an
	// empty first line followed by more lines is the "Files:" layout: the reader does not count it as a line.
	want := normValue(v)
	if !strings.HasSuffix(v, "\n") && len(want) >= 1 && want[0] == '\n' {
		want = want[1:]
	}
	if normValue(all[0].Values["K"]) != want {
		return 7
	}
	// second cycle on what the reader produced
	var buf2 bytes.Buffer
	if err := all[0].WriteTo(&buf2); err != nil {
		return 8
	}
	r2, err := NewParagraphReader(strings.NewReader(buf2.String()), nil)
	if err != nil {
		return 9
	}
	all2, err := r2.All()
	if err != nil || len(all2) != 1 {
		return 10
	}
	// no change of the logical lines and no growth (a value may lose its one trailing newline, never gain one)
	if normValue(all2[0].Values["K"]) != normValue(all[0].Values["K"]) || len(all2[0].Order) != 1 {
		return 11
	}
	if len(all2[0].Values["K"]) > len(all[0].Values["K"]) {
		return 12
	}
	return 0
}

// VerifC08Doc: read - write - read is the identity on whatever the reader produced, and the written form
// has no blank line inside a paragraph.
func VerifC08Doc(doc string) int {
	r, err := NewParagraphReader(strings.NewReader(doc), nil)
	if err != nil {
		return 0
	}
	all, err := r.All()
	if err != nil {
		return 0
	}
	var buf bytes.Buffer
	for i := range all {
		if i > 0 {
			buf.WriteString("\n")
		}
		var one bytes.Buffer
		if err := all[i].WriteTo(&one); err != nil {
			return 1
		}
		if verifBlankLineInside(one.String()) {
			return 2
		}
		buf.Write(one.Bytes())
	}
	r2, err := NewParagraphReader(strings.NewReader(buf.String()), nil)
	if err != nil {
		return 3
	}
	all2, err := r2.All()
	if err != nil {
		return 4
	}
	if len(all2) != len(all) {
		return 5
	}
	for i := range all {
		if len(all[i].Order) != len(all2[i].Order) {
			return 6
		}
		for j, k := range all[i].Order {
			if all2[i].Order[j] != k {
				return 7
			}
			if normValue(all2[i].Values[k]) != normValue(all[i].Values[k]) {
				return 8
			}
			if len(all2[i].Values[k]) > len(all[i].Values[k]) {
				return 9
			}
		}
	}
	return 0
}

type verifTwo struct {
	Aa string
	Bb string
}

// VerifC08Encoder: k structs written one after another through one Encoder read back as the same paragraphs:
// every struct that has a field to write is one paragraph, in order, with its own fields (a struct with nothing
// to write contributes nothing, and must not glue its neighbours together).
// group: 0 one Encode call per struct; 1 the first alone, the others as one slice; 2 all as one slice;
// 3 the first two as a slice, the third alone (k = 3).
func VerifC08Encoder(k, f int, a0, b0, a1, b1, a2, b2 string, group int) int {
	vals := []verifTwo{{a0, b0}, {a1, b1}, {a2, b2}}
	var buf bytes.Buffer
	enc, err := NewEncoder(&buf)
	if err != nil {
		return 1
	}
	want := []verifTwo{}
	for i := 0; i < k; i++ {
		if vals[i].Aa != "" || vals[i].Bb != "" {
			want = append(want, vals[i])
		}
	}
	switch group {
	case 0:
		for i := 0; i < k; i++ {
			if err := enc.Encode(&vals[i]); err != nil {
				return 2
			}
		}
	case 1:
		if k > 0 {
			if err := enc.Encode(&vals[0]); err != nil {
				return 2
			}
			if err := enc.Encode(vals[1:k]); err != nil {
				return 2
			}
		}
	case 2:
		if err := enc.Encode(vals[:k]); err != nil {
			return 2
		}
	default:
		if k == 3 {
			if err := enc.Encode(vals[:2]); err != nil {
				return 2
			}
			if err := enc.Encode(&vals[2]); err != nil {
				return 2
			}
		} else {
			for i := 0; i < k; i++ {
				if err := enc.Encode(vals[i : i+1]); err != nil {
					return 2
				}
			}
		}
	}
	var back []verifTwo
	if err := Unmarshal(&back, strings.NewReader(buf.String())); err != nil {
		return 3
	}
	if len(back) != len(want) {
		return 4
	}
	for i := range want {
		if back[i].Aa != want[i].Aa {
			return 5
		}
		if back[i].Bb != want[i].Bb {
			return 6
		}
	}
	return 0
}

var verifFuncs = map[string]interface{}{
	"VerifC08Doc":     VerifC08Doc,
	"VerifC08Encoder": VerifC08Encoder,
	"VerifC07Inv":     VerifC07Inv,
	"VerifC07Doc":     VerifC07Doc,
	"VerifC07Slice":   VerifC07Slice,
	"VerifC08Value":   VerifC08Value,
}
