//go:build verif

package control

import (
	"bufio"
	"strings"

	"pault.ag/go/debian/dependency"
)

// VerifC19Order: n sources given as .dsc texts; edges is a bit set (bit 4*i+j: source j build-depends on a binary
// of source i, so i must come before j); cyclic says whether that relation has a cycle.
func VerifC19Order(n int, doc0, doc1, doc2, doc3 string, edges int, cyclic bool) int {
	docs := []string{doc0, doc1, doc2, doc3}[:n]
	dscs := []DSC{}
	for _, d := range docs {
		c, err := ParseDsc(bufio.NewReader(strings.NewReader(d)), "")
		if err != nil {
			return 10
		}
		dscs = append(dscs, *c)
	}
	arch, err := dependency.ParseArch("amd64")
	if err != nil {
		return 11
	}
	order, err := OrderDSCForBuild(dscs, *arch)
	if cyclic {
		if err == nil {
			return 1
		}
		return 0
	}
	if err != nil {
		return 2
	}
	if len(order) != n {
		return 3
	}
	pos := make([]int, n)
	for i := 0; i < n; i++ {
		pos[i] = -1
		for k := range order {
			if order[k].Source == dscs[i].Source {
				if pos[i] != -1 {
					return 4
				}
				pos[i] = k
			}
		}
		if pos[i] == -1 {
			return 4
		}
	}
	for i := 0; i < n; i++ {
		for j := 0; j < n; j++ {
			if edges&(1<<uint(4*i+j)) != 0 && pos[i] > pos[j] {
				return 5
			}
		}
	}
	again, err := OrderDSCForBuild(dscs, *arch)
	if err != nil || len(again) != n {
		return 6
	}
	for k := range order {
		if order[k].Source != again[k].Source {
			return 6
		}
	}
	return 0
}

func init() { verifFuncs["VerifC19Order"] = VerifC19Order }
