//go:build verif

package control

import (
	"bufio"
	"strings"
)

// ---------------------------------------------------------------- C18

// VerifC18Para: the paragraph reader returns on any input; an error comes without a paragraph; a second
// reader over the same bytes sees the same sequence.
func VerifC18Para(s string) int {
	run := func() (string, int) {
		r, err := NewParagraphReader(strings.NewReader(s), nil)
		if err != nil {
			if r != nil {
				return "", 1
			}
			return "E", 0
		}
		out := ""
		for n := 0; n < len(s)+2; n++ {
			p, err := r.Next()
			if err != nil {
				if p != nil {
					return "", 2
				}
				return out + "e", 0
			}
			out += dumpParagraph(p)
		}
		return "", 3
	}
	a, c := run()
	if c != 0 {
		return c
	}
	b, c := run()
	if c != 0 || a != b {
		return 4
	}
	return 0
}

// VerifC18Typed: a typed document with arbitrary bytes in one field: the parser returns, and returns either a
// value or an error, never both.
func VerifC18Typed(kind int, doc string) int {
	rd := bufio.NewReader(strings.NewReader(doc))
	switch kind {
	case 0:
		c, err := ParseDsc(rd, "/d/x.dsc")
		if (err != nil) == (c != nil) {
			return 1
		}
	case 1:
		c, err := ParseChanges(rd, "/d/x.changes")
		if (err != nil) == (c != nil) {
			return 2
		}
	case 2:
		c, err := ParseControl(rd, "debian/control")
		if (err != nil) == (c != nil) {
			return 3
		}
	case 3:
		ParseBinaryIndex(rd)
	case 4:
		ParseSourceIndex(rd)
	}
	return 0
}

func init() {
	verifFuncs["VerifC18Para"] = VerifC18Para
	verifFuncs["VerifC18Typed"] = VerifC18Typed
}
