//go:build verif

package control

import (
	"bufio"
	"strings"
)

// ---------------------------------------------------------------- C18

// VerifC18Para: the paragraph reader returns on any input; an error comes without a paragraph; a second
// reader over the same bytes sees the same sequence.
func VerifC18Para(s string) int {
	run := func() (string, int) {
		r, err := NewParagraphReader(strings.NewReader(s), nil)
		if err != nil {
			if r != nil {
				return "", 1
			}
			return "E", 0
		}
		out := ""
		for n := 0; n < len(s)+2; n++ {
			p, err := r.Next()
			if err != nil {
				if p != nil {
					return "", 2
				}
				return out + "e", 0
			}
			out += dumpParagraph(p)
		}
		return "", 3
	}
	a, c := run()
	if c != 0 {
		return c
	}
	b, c := run()
	if c != 0 || a != b {
		return 4
	}
	return 0
}

// VerifC18Typed: a typed document with arbitrary bytes in one field: the parser returns, and returns either a
// value or an error, never both.
func VerifC18Typed(kind int, doc string) int {
	run := func() (int, string) {
		rd := bufio.NewReader(strings.NewReader(doc))
		switch kind {
		case 0:
			c, err := ParseDsc(rd, "/d/x.dsc")
			if (err != nil) == (c != nil) {
				return 1, ""
			}
			if err == nil {
				return 0, dumpDSC(c)
			}
		case 1:
			c, err := ParseChanges(rd, "/d/x.changes")
			if (err != nil) == (c != nil) {
				return 2, ""
			}
			if err == nil {
				return 0, dumpChanges(c)
			}
		case 2:
			c, err := ParseControl(rd, "debian/control")
			if (err != nil) == (c != nil) {
				return 3, ""
			}
			if err == nil {
				return 0, dumpControl(c)
			}
		case 3:
			l, err := ParseBinaryIndex(rd)
			if err == nil {
				out := ""
				for i := range l {
					out += "#" + dumpBinaryIndex(&l[i])
				}
				return 0, out
			}
		case 4:
			l, err := ParseSourceIndex(rd)
			if err == nil {
				out := ""
				for i := range l {
					out += "#" + dumpSourceIndex(&l[i])
				}
				return 0, out
			}
		}
		return 0, "E"
	}
	c1, d1 := run()
	if c1 != 0 {
		return c1
	}
	// the same bytes again: the same outcome, field for field
	c2, d2 := run()
	if c2 != 0 || d1 != d2 {
		return 7
	}
	return 0
}

func init() {
	verifFuncs["VerifC18Para"] = VerifC18Para
	verifFuncs["VerifC18Typed"] = VerifC18Typed
}

// VerifC18Race: many goroutines parse independent inputs (fresh field names each) through the control-file entry
// points at once; run under the race detector when a non-interference obligation fails.
func VerifC18Race(job string) int {
	done := make(chan int, 16)
	for g := 0; g < 16; g++ {
		go func(g int) {
			bad := 0
			for i := 0; i < 400; i++ {
				name := "F" + string(rune('a'+g)) + string(rune('a'+i%26)) + string(rune('a'+(i/26)%26))
				doc := name + ": v\nBinary: a, b\nVersion: 1-1\nArchitecture: any\nSource: s\nFormat: 1.0\nMaintainer: M <m@x>\nFiles:\n aa 1 s.debian.tar.xz\n"
				r, err := NewParagraphReader(strings.NewReader(doc), nil)
				if err != nil {
					bad++
					continue
				}
				if _, err := r.All(); err != nil {
					bad++
				}
				if _, err := ParseDsc(bufio.NewReader(strings.NewReader(doc)), ""); err != nil {
					bad++
				}
			}
			done <- bad
		}(g)
	}
	total := 0
	for g := 0; g < 16; g++ {
		total += <-done
	}
	if total != 0 {
		return 1
	}
	return 0
}

func init() { verifFuncs["VerifC18Race"] = VerifC18Race }
