#!/bin/bash
# usage: [VERIF_IDS="C02 C07"] runall.sh [quick|thorough]  -- runs every registered check (or the listed ones) on the current tree, one after the other
cd "$(dirname "$0")/.."
tier="${1:-quick}"
for id in ${VERIF_IDS:-C01 C02 C03 C04 C05 C06 C07 C08 C09 C10 C11 C12 C13 C14 C15 C16 C17 C18 C19 C20}; do
  s=$(date +%s)
  ./check $id $tier > /tmp/runall_$id.log 2>&1; rc=$?
  e=$(date +%s)
  echo "$id $tier exit=$rc wall=$((e-s))s $(grep -c '^VIOLATION' /tmp/runall_$id.log) violations $(grep -c 'KNOWN-FINDING' /tmp/runall_$id.log) known; $(tail -1 /tmp/runall_$id.log | cut -c1-120)"
done
