#!/usr/bin/env python3
# triage helper: for each replay file of C10, show where the native dump differs from the expected one
import sys, json, glob
sys.path.insert(0, '/verif/engine')
from symgo.driver import native_run
kinds = {'VerifC10Dsc': 'dsc', 'VerifC10Changes': 'changes', 'VerifC10Control': 'control', 'VerifC10Packages': 'packages', 'VerifC10Sources': 'sources'}
for f in sorted(glob.glob('/verif/replays/C10/*.json')):
    c = json.load(open(f))
    if c['func'] not in kinds:
        print(f, c['func'], c['args'][-1]); continue
    args = [bytes.fromhex(x['hex']) if isinstance(x, dict) else x.encode() for x in c['args_enc']]
    doc, exp = args[0], args[-1]
    path = args[1] if len(args) == 3 else b''
    got = native_run('control', [('VerifC10Dump', [kinds[c['func']].encode(), doc, path])])[0]['ret'][0]
    g = got.split(b'\x00'); e = exp.split(b'\x00')
    print('==', f, c['func'])
    if got.startswith(b'ERR'):
        print('   ', got); print(doc.decode('latin-1')); continue
    for a, b in zip(g, e):
        if a != b:
            print('   got   ', a); print('   expect', b)
    if len(g) != len(e): print('   field count', len(g), len(e))
