#!/usr/bin/env python3
# Regenerates /verif/MANIFEST.json from the table below (kept in one place so it is always valid).
import json, os
V = os.path.dirname(os.path.dirname(os.path.abspath(__file__)))
TECH = 'bounded symbolic execution of the real go/ssa (regenerated from /repo per run) decided by z3; counterexamples replayed natively'
CHECKS = {
 'C01': dict(text='For every pair of strings over the version alphabet up to the stated length, and every pair of 64-bit epochs, z3 shows that the sign of the real verrevcmp/Compare/Slice.Less (symbolically executed from go/ssa, all loops unrolled under guards, index/slice checks as obligations) equals the Policy 5.6.12 order written as SMT terms. Bounded model checking: exhaustive inside the bound, silent outside it.',
             note='Trusted: go/ssa construction, the SSA->SMT interpreter (validated on every run against the native build on the repo test inputs and seeded random inputs), z3. The oracle is an independent SMT formulation of the dpkg algorithm (checks/specs.py).',
             ref='DESIGN.md 2/C01'),
}
CHECKS['C03'] = dict(text='Every ASCII string up to the stated length is pushed symbolically through the real Parse, String, MarshalControl/UnmarshalControl and MarshalText/UnmarshalText (go/ssa, path enumeration pruned by z3): on every accepted path the three renderings must re-parse to the identical value; grammar templates with symbolic leaves must be accepted with exactly their parts; each near-miss class of the statement, given as a template with symbolic witnesses, must be rejected by Parse, UnmarshalControl and UnmarshalText.',
             note='Trusted: go/ssa, the interpreter and its contract models (fmt.Sprintf %d/%s, strings.Index family, unicode.IsSpace/IsDigit tables, UTF-8 decoding case split), z3. fmt.Errorf is an opaque non-nil error.',
             ref='DESIGN.md 2/C03')
CHECKS['C05'] = dict(text='Every byte string (all 256 values per position) up to the stated length is executed symbolically through the real dependency.Parse, the String()/MarshalControl renderers and Parse/UnmarshalControl again (go/ssa, path enumeration; branch feasibility by per-byte domains and z3); on every accepted path the re-parse must succeed and be structurally identical. Likewise ParseArch/String/ParseArch and UnmarshalControl/MarshalControl for every ASCII architecture name up to its bound.',
             note='Trusted: go/ssa, the interpreter and its contract models (strings.SplitN/Join, UTF-8 encoding of string(rune)), z3. Structural equality is the harness function eqDependency.',
             ref='DESIGN.md 2/C05')
CHECKS['C04'] = dict(text='The driver builds a symbolic dependency AST (shapes enumerated exhaustively up to the stated bound, leaves symbolic over the Policy alphabets), renders it with its own renderer in several whitespace layouts (including symbolic space/tab/newline bytes), and the real Parse and UnmarshalControl (go/ssa, path enumeration decided by byte domains and z3) must return exactly that AST, compared through a canonical dump that does not use String(). Each malformed class of the statement, as a template with symbolic leaves, must give an error and a nil result.',
             note='Trusted: go/ssa, the interpreter and its models, z3; the independent renderer and the canonical dump in the harness are the oracle. Whitespace slots follow Policy 7.1 and the spacing dpkg/Dpkg::Deps accept; a name directly followed by [ or < is not demanded.',
             ref='DESIGN.md 2/C04')
CHECKS['C02'] = dict(text='For every triple of versions (any 64-bit epochs, components up to the stated lengths over the version alphabet) the real Compare, symbolically executed from go/ssa with merged states, is shown by z3 to be reflexive, antisymmetric, transitive and congruent; and the real sort.Sort (insertion-sort path of pdqsort, from its own SSA) with the real Slice.Len/Less/Swap on slices of symbolic versions is shown to end within the unwinding bound with a non-decreasing permutation.',
             note='Trusted: go/ssa, the interpreter, z3; pdqsort beyond 12 elements is outside the claim (its contract needs exactly the laws shown).',
             ref='DESIGN.md 2/C02')
CHECKS['C06'] = dict(text='Arch.Is / ArchSet.Matches on architectures whose components are symbolic names (exhaustive up to renaming), GetPossibilities/GetAllPossibilities/GetSubstvars on dependencies with symbolic flags, and SatisfiedBy on symbolic (op, N, V) are executed symbolically from go/ssa; on every path z3 shows agreement with the statement written as a reference in the harness (field-wise any-or-equal, list admission, first admitted non-substvar alternative, operator table over the reference order).',
             note='Trusted: go/ssa, the interpreter and its models, z3. The reference order is the harness specCompare (validated against the SMT formulation in C01).',
             ref='DESIGN.md 2/C06')
CHECKS['C07'] = dict(text='Every byte string up to the stated length goes symbolically through the real NewParagraphReader/Next (with the real bufio.Reader and strings.Reader executed from their own SSA): every returned paragraph must have a value for exactly the fields it lists, each once. Deb822 documents generated from a model (paragraph/field/value shapes, LF/CRLF, comments, blank-line runs, final newline; leaves symbolic) must come back as exactly the model through the Next loop, All() and Unmarshal into a slice (reflect modelled over the interpreter heap).',
             note='Trusted: go/ssa, the interpreter, the reflect model and the leaf models, z3. Values are compared on logical lines (one trailing newline not significant; an empty first line before continuation lines is not a line).',
             ref='DESIGN.md 2/C07')
CHECKS['C08'] = dict(text='For every value over {newline, space, tab, ".", "a"} up to the stated length that is a sequence of text lines, the real WriteTo output is shown to contain no blank line, to read back (real reader) to the same logical lines, and to be stable under a second cycle without growth; every C07 document is pushed through read-write-read; k paragraphs through one Encoder decode to k structs.',
             note='Trusted as for C07. fmt.Sprintf("%s: %s") and strings.Split/Join/TrimSuffix are contract models.',
             ref='DESIGN.md 2/C08')
CHECKS['C13'] = dict(text='One inductive step of Ar.Next from an arbitrary 64-bit offset over a well-formed 60-byte header with symbolic name characters and symbolic decimal digits is executed symbolically (real parseArEntry, strconv.Atoi, io.SectionReader from SSA): z3 shows the entry carries exactly the header fields, its reader covers [offset+60, offset+60+size) and the iterator lands on offset+60+size+size%2, which by the format is the next header - so archives of any length follow by induction. End-to-end runs over archives of 0-3 members with symbolic names/data check order, bytes, EOF and re-reading of earlier members; the 8-byte global magic is checked over arbitrary bytes.',
             note='Trusted: go/ssa, interpreter, z3; the io.ReaderAt of the inductive step is a harness stub that serves the header and records requested offsets.',
             ref='DESIGN.md 2/C13')
CHECKS['C15'] = dict(text='One step of Ar.Next from an arbitrary offset with arbitrary bytes in each header column (all 256 values at small widths, a restricted alphabet at full width) and short reads is executed symbolically: no panic outcome, a returned member implies both magic bytes, a non-negative size, a reader of exactly that size and progress of at least 60 bytes (hence at most len/60 steps); whole-archive iteration over short arbitrary inputs checks the step bound and repeatability.',
             note='Trusted: go/ssa, interpreter, z3. The decompressors and archive/tar on hostile streams are outside the claim (as in the statement).',
             ref='DESIGN.md 2/C15')
CHECKS['C17'] = dict(text='Changelogs generated from an entry-list model (symbolic leaves) are executed symbolically through the real Parse/ParseOne (bufio from SSA, real version.Parse): the result must be exactly the model entries (source, version, distributions, options, verbatim body, maintainer, instant). For every truncation offset of each changelog the outcome must be an error or exactly the entries wholly inside the prefix with nothing but blank lines after them - never fewer without an error.',
             note='Trusted: go/ssa, interpreter, z3. time.Parse is an uninterpreted function of (layout, text) that is assumed to accept the three well-formed dates used and to reject text shorter than the fixed-width RFC1123Z layout; that it reads dates correctly is stdlib territory.',
             ref='DESIGN.md 2/C17')
CHECKS['C09'] = dict(text='Probe struct types covering every supported kind and tag combination are marshalled and unmarshalled symbolically through the real encode.go/decode.go (reflect modelled over the interpreter heap, struct tags taken from go/types): on every path the round trip must reproduce the value field by field, optional zero fields must be absent and required ones present, a document lacking a required field must be an error, unknown fields of an embedded Paragraph must pass through in order while known ones reflect the struct, and no path may end in a panic.',
             note='Trusted: go/ssa, interpreter, the reflect model (validated against the native build on the same calls), z3. Integers are symbolic in [-999,999] / [0,999] plus concrete 64-bit boundaries (decimal rendering of full 64-bit symbolic words does not finish).',
             ref='DESIGN.md 2/C09')
CHECKS['C10'] = dict(text='For each typed document kind (.dsc, .changes, debian/control, Packages, Sources, best-checksum selector) documents are rendered by the driver in the real Debian layout from a model with symbolic leaves, and the real typed parsers (Unmarshal with reflect modelled over the interpreter heap, struct tags straight from go/types) are executed symbolically: z3 shows on every path that a canonical dump of every struct field and accessor equals the model.',
             note='Trusted: go/ssa, interpreter, reflect model, z3; the canonical dump functions in the harness. The control file inside a .deb is covered under C14.',
             ref='DESIGN.md 2/C10')
CHECKS['C19'] = dict(text='For every build-dependency graph on 3 sources (thorough: 4), rendered as .dsc texts with "Binary: a, b" lists, symbolic names and every carrier of an edge (three build-dependency fields, alternatives, architecture restrictions) plus decoys that must be ignored, the real ParseDsc + OrderDSCForBuild + topsort (from SSA) are executed symbolically: acyclic graphs must yield a permutation with every required edge respected and the same order on a second call, cyclic ones an error.',
             note='Trusted: go/ssa, interpreter, reflect model, z3. The graph shapes are enumerated; names and the parser paths they induce are symbolic.',
             ref='DESIGN.md 2/C19')
CHECKS['C12'] = dict(text='Wiring-level claim: the four digest constructors are replaced by abstract hashers that record every byte written in order and whose Sum is an uninterpreted function H_alg of those bytes. With symbolic content, every split into writes/reads and ordered selections of the algorithms, the real hashio writers/readers (io.MultiWriter/TeeReader from SSA) are shown to pass the bytes through unchanged, count them, and report H_name(content); the real FileHash.Verifier for entries parsed from Checksums-Sha256/-Sha512, obtained through BestChecksums and built by FileHashFromHasher is shown to accept exactly when H_{entry algorithm}(content) equals the recorded hash.',
             note='Trusted: go/ssa, interpreter, reflect model, z3, and the digest functions themselves (stdlib; uninterpreted here). No native translator validation is possible for digests (real vs. uninterpreted); counterexamples are still replayed natively with the real digests.',
             ref='DESIGN.md 2/C12')
CHECKS['C20'] = dict(text='Copy/Move/Remove of .dsc and .changes handles with 0-2 (thorough 3) referenced files are executed symbolically against a deterministic filesystem model with a symbolic fault configuration (each file ok / missing / replaced by a directory, a directory blocking a destination name): on every path an error leaves the control file out of the destination (Move/Remove: still at its source) and success leaves every file complete, identical and at the right place with the handle updated. With the listed name symbolic over {".", "/", "a"} every path must leave sentinels outside the source directory untouched and bring nothing from outside into the destination.',
             note='Trusted: go/ssa, interpreter, z3, and the filesystem model (engine/symgo/osmodel.py), which is validated against the real filesystem on the validation calls and on every replay (the same harness runs natively in a temp directory). Faults that need resource exhaustion (ENOSPC, failing Close) are outside the model.',
             ref='DESIGN.md 2/C20')
NA = {}
props = [json.loads(l) for l in open(os.path.join(V, 'properties.jsonl'))]
checks = []
for p in props:
    pid = p['id']
    if pid not in CHECKS:
        continue
    c = CHECKS[pid]
    checks.append(dict(property_id=pid, quick_cmd='./check %s quick' % pid, thorough_cmd='./check %s thorough' % pid,
                       evidence_file='/verif/evidence/%s.json' % pid, replay_cmd_template='./check %s quick --replay {path}' % pid,
                       engine='symgo', level_claimed=dict(category='model_checking', text=c['text'], design_ref=c['ref']),
                       level_note=c['note'], technique=c.get('technique', TECH)))
na = [dict(property_id=p['id'], reason=NA.get(p['id'], 'check not built yet (work in progress); no claim is made')) for p in props if p['id'] not in CHECKS]
m = dict(version=1, setup_cmd='./setup.sh',
         hooks=dict(guard='verif', enable='harness code (/verif/harness/<pkg>/*.go, build tag verif) is injected by go/packages and go test overlays; /repo itself carries no hooks', baseline_off_cmd='cd /repo && go test -vet=off -count=1 ./...', source_commits=[], add_only=True),
         engines=[dict(name='symgo', path='/verif/engine', serves_properties=[c['property_id'] for c in checks], kind_free_text='go/ssa exporter (Go, x/tools v0.29.0) + bounded symbolic interpreter over the exported SSA (Python, z3 5.1.0): merged BMC-style regime for integer kernels, path-enumerating regime for parsers; native replay through go test -overlay')],
         checks=checks, notes='See DESIGN.md. Exit codes: 0 pass, 1 violation (VIOLATION line, replay file), 3 inconclusive (engine could not decide; never reported as a pass).',
         not_applicable=na)
json.dump(m, open(os.path.join(V, 'MANIFEST.json'), 'w'), indent=1)
print('MANIFEST.json: %d checks, %d not applicable' % (len(checks), len(na)))
