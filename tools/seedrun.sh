#!/bin/bash
# usage: seedrun.sh <property id> <patch.diff> [tier]  -- applies the patch to /repo, runs the check, reverts.
set -u
ID="$1"; P="$2"; TIER="${3:-quick}"
cd /repo && git apply "$P" || { echo "$ID $P: PATCH DOES NOT APPLY"; exit 9; }
cd /verif && ./check "$ID" "$TIER" > /tmp/seedrun_$ID.log 2>&1; rc=$?
git -C /repo checkout -- . ; git -C /repo status --short | head -3
echo "$ID $P ($TIER): exit $rc; $(grep -c '^VIOLATION' /tmp/seedrun_$ID.log) VIOLATION lines; $(grep -m1 'counterexample:' /tmp/seedrun_$ID.log)"
