#!/bin/bash
# usage: seedrun.sh <property id> <patch.diff> [tier]
# Runs the property's check against a scratch worktree of /repo HEAD with the patch applied (VERIF_REPO), so
# that /repo itself is never touched; evidence and replays of such runs go to a scratch directory.
set -u
ID="$1"; P="$2"; TIER="${3:-quick}"
W=$(mktemp -d /tmp/seedrun.XXXXXX); rmdir "$W"
git -C /repo worktree add -q --detach "$W" HEAD || exit 9
if ! git -C "$W" apply "$P"; then echo "$ID $P: PATCH DOES NOT APPLY"; git -C /repo worktree remove --force "$W"; exit 9; fi
mkdir -p /tmp/seedrun_out
LOG=/tmp/seedrun_out/$(basename $(dirname $(dirname "$P")))_$(basename $(dirname "$P"))_$ID.log
cd /verif && VERIF_REPO="$W" VERIF_EVIDENCE_DIR=/tmp/seedrun_out/ev.$$ VERIF_REPLAY_DIR=/tmp/seedrun_out/replays.$$ ./check "$ID" "$TIER" > "$LOG" 2>&1; rc=$?
git -C /repo worktree remove --force "$W"; rm -rf /tmp/seedrun_out/ev.$$
echo "$ID $P ($TIER): exit $rc; $(grep -c '^VIOLATION' "$LOG") VIOLATION lines; $(grep -m1 'counterexample:' "$LOG" | cut -c1-300)"
