#!/bin/bash
# usage: benigncheck.sh <dir with patch.diff, zz_benign_test.go, DEMO_PKG.txt>
# Confirms in a scratch worktree of /repo HEAD: the differential test passes unchanged, the patch applies and builds,
# the differential test and the existing suite pass with it.
set -u
export GOFLAGS=-mod=mod GOPROXY=off GOSUMDB=off GOTOOLCHAIN=local
S="$1"; W=$(mktemp -d /tmp/benwt.XXXXXX); rmdir "$W"
git -C /repo worktree add -q --detach "$W" HEAD || exit 9
PKG=$(tr -d ' \n' < "$S/DEMO_PKG.txt")
res=""
cp "$S/zz_benign_test.go" "$W/$PKG/"
if (cd "$W" && go test -vet=off -count=1 ./$PKG >/dev/null 2>&1); then res="$res difftest-passes-unchanged"; else res="$res DIFFTEST-FAILS-UNCHANGED"; fi
if git -C "$W" apply "$S/patch.diff" 2>/dev/null; then res="$res applies"; else res="$res PATCH-DOES-NOT-APPLY"; fi
if (cd "$W" && go build ./... >/dev/null 2>&1); then res="$res builds"; else res="$res BUILD-FAILS"; fi
if (cd "$W" && go test -vet=off -count=1 ./$PKG >/dev/null 2>&1); then res="$res difftest-passes-with-change"; else res="$res DIFFTEST-FAILS-WITH-CHANGE"; fi
rm "$W/$PKG/zz_benign_test.go"
if (cd "$W" && go test -vet=off -count=1 ./... >/dev/null 2>&1); then res="$res suite-passes"; else res="$res SUITE-FAILS"; fi
git -C /repo worktree remove --force "$W"
echo "$S:$res"
