#!/usr/bin/env python3
# Engine self-test (belongs to no property): contract models checked against the real code executed from its SSA.
#   strconv.Atoi model  ==  strconv.ParseInt(s, 10, 0) from SSA, for every byte string up to length N
# usage: VERIF_EVIDENCE_DIR=/tmp/selftest python3-vt tools/selftest.py --tier quick
import os, sys, itertools
sys.path.insert(0, os.path.join(os.path.dirname(os.path.abspath(__file__)), '..', 'checks'))
from common import *

ID = 'SELFTEST'
PKG = 'version'
ROOTS = [MOD + '/version.VerifSelfAtoi']
META = dict(functions_encoded=['strconv.ParseInt', 'strconv.ParseUint (SSA)', 'strconv.Atoi (model)'], stubs=[], bounds={'quick': 'all byte strings of length <= 4 and sign+digit strings of 5-7 bytes', 'thorough': 'length <= 5'},
            outside_claim=[], assumptions=[])
CLS = [b'+', b'-', b'0123456789', b'_']


def jobs(tier):
    N = 4 if tier == 'quick' else 5
    used = b''.join(CLS)
    js = []
    for n in range(N + 1):
        for part in itertools.product(range(len(CLS) + 1), repeat=min(n, 2)):
            js.append(dict(name='atoi_%d_%s' % (n, '_'.join(map(str, part))), n=n, part=list(part)))
    for n in (5, 6, 7):
        js.append(dict(name='atoi_digits_%d' % n, n=n, part=None))
    return js


def run_job(env, job):
    s = symstr('s', job['n'])
    used = b''.join(CLS)
    cls = CLS + [bytes(x for x in range(256) if x not in used)]
    if job['part'] is None:
        assume = [in_set(s[0], b'+-0123456789')] + [in_set(c, b'0123456789') for c in s[1:]]
    else:
        assume = [in_set(s[i], cls[ci]) for i, ci in enumerate(job['part'])]
    return run_harness(env, PKG, 'VerifSelfAtoi', [s], assume, unwind=64, sample='Atoi model against ParseInt from SSA, %d bytes' % job['n'])


def validation_calls(env, seed):
    return [('VerifSelfAtoi', [x]) for x in (b'', b'0', b'-0', b'+', b'-', b'12', b'+12', b'-12', b'1_2', b'9223372036854775807', b'9223372036854775808', b'-9223372036854775808', b'00000000000000000001', b' 1', b'1 ')]


if __name__ == '__main__':
    runner.main(sys.modules[__name__])
