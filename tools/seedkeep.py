#!/usr/bin/env python3
# usage: seedkeep.py <prop> <x> <detected: yes|no|...> "<needs>" "<check result line>"
import sys, os, json, shutil
prop, x, det, needs, result = sys.argv[1:6]
src = '/tmp/seed_out/%s/%s' % (prop, x)
dst = '/verif/seeded/%s-%s' % (prop, x)
os.makedirs(dst, exist_ok=True)
for f in ('patch.diff', 'zz_seed_demo_test.go', 'DEMO_PKG.txt', 'NOTES.md'):
    if os.path.exists(os.path.join(src, f)):
        shutil.copy(os.path.join(src, f), dst)
json.dump(dict(property=prop, seed=x, origin='independent sub-agent given only the property text and a scratch worktree',
               needs_to_manifest=needs,
               confirmed='tools/seedcheck.sh: patch applies to /repo HEAD, builds, existing suite passes with it, demo fails with it and passes without it',
               ran='tools/seedrun.sh %s seeded/%s-%s/patch.diff (git -C /repo apply; ./check %s quick; git -C /repo checkout -- .)' % (prop, prop, x, prop),
               detected=det, check_result=result), open(os.path.join(dst, 'meta.json'), 'w'), indent=1)
print('kept', dst)
