// dumps the rune ranges of the unicode predicates the models need, from the installed Go's own tables
package main

import (
	"encoding/json"
	"os"
	"unicode"
)

func ranges(f func(rune) bool) [][2]int {
	var out [][2]int
	start := -1
	for r := rune(0); r <= unicode.MaxRune+1; r++ {
		in := r <= unicode.MaxRune && f(r)
		if in && start < 0 {
			start = int(r)
		}
		if !in && start >= 0 {
			out = append(out, [2]int{start, int(r) - 1})
			start = -1
		}
	}
	return out
}

func main() {
	m := map[string][][2]int{
		"IsLetter": ranges(unicode.IsLetter), "IsDigit": ranges(unicode.IsDigit), "IsSpace": ranges(unicode.IsSpace),
		"IsUpper": ranges(unicode.IsUpper), "IsLower": ranges(unicode.IsLower), "IsPunct": ranges(unicode.IsPunct),
		"IsControl": ranges(unicode.IsControl), "IsNumber": ranges(unicode.IsNumber), "IsPrint": ranges(unicode.IsPrint),
	}
	b, _ := json.Marshal(m)
	os.WriteFile(os.Args[1], b, 0644)
}
