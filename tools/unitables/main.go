// dumps the rune ranges of the unicode predicates the models need, from the installed Go's own tables
package main

import (
	"encoding/json"
	"os"
	"sort"
	"unicode"
)

func ranges(f func(rune) bool) [][2]int {
	var out [][2]int
	start := -1
	for r := rune(0); r <= unicode.MaxRune+1; r++ {
		in := r <= unicode.MaxRune && f(r)
		if in && start < 0 {
			start = int(r)
		}
		if !in && start >= 0 {
			out = append(out, [2]int{start, int(r) - 1})
			start = -1
		}
	}
	return out
}

// mapping dumps a rune function as runs [lo, hi, stride, delta]: f(r) = r + delta for r = lo, lo+stride, ... <= hi;
// runes not covered map to themselves
func mapping(f func(rune) rune) [][4]int {
	var out [][4]int
	type pt struct{ r, d int }
	var pts []pt
	for r := rune(0); r <= unicode.MaxRune; r++ {
		if g := f(r); g != r {
			pts = append(pts, pt{int(r), int(g) - int(r)})
		}
	}
	byDelta := map[int][]int{}
	var deltas []int
	for _, p := range pts {
		if _, ok := byDelta[p.d]; !ok {
			deltas = append(deltas, p.d)
		}
		byDelta[p.d] = append(byDelta[p.d], p.r)
	}
	sort.Ints(deltas)
	for _, d := range deltas {
		rs := byDelta[d]
		for i := 0; i < len(rs); {
			j := i + 1
			stride := 1
			if j < len(rs) && (rs[j]-rs[i] == 1 || rs[j]-rs[i] == 2) {
				stride = rs[j] - rs[i]
				for j < len(rs) && rs[j]-rs[j-1] == stride {
					j++
				}
			}
			out = append(out, [4]int{rs[i], rs[j-1], stride, d})
			i = j
		}
	}
	return out
}

func main() {
	m := map[string]interface{}{
		"IsLetter": ranges(unicode.IsLetter), "IsDigit": ranges(unicode.IsDigit), "IsSpace": ranges(unicode.IsSpace),
		"IsUpper": ranges(unicode.IsUpper), "IsLower": ranges(unicode.IsLower), "IsPunct": ranges(unicode.IsPunct),
		"IsControl": ranges(unicode.IsControl), "IsNumber": ranges(unicode.IsNumber), "IsPrint": ranges(unicode.IsPrint),
		"map_SimpleFold": mapping(unicode.SimpleFold), "map_ToLower": mapping(unicode.ToLower), "map_ToUpper": mapping(unicode.ToUpper),
	}
	b, _ := json.Marshal(m)
	os.WriteFile(os.Args[1], b, 0644)
}
