module verif/unitables

go 1.19
