# Common driver code for the checks: export, symbolic inputs, job pool, evidence, replay.
import os, sys, json, time, hashlib, subprocess, tempfile, glob, traceback, multiprocessing
import z3
from .prog import Prog, Unsupported
from .values import *
from .interp import Interp, Ctx, State, Outcome, Inconclusive
from . import models

VERIF = os.path.dirname(os.path.dirname(os.path.dirname(os.path.abspath(__file__))))
REPO = os.environ.get('VERIF_REPO', '/repo')
MOD = 'pault.ag/go/debian'
CACHE = os.path.join(VERIF, '.cache')
GOENV = dict(os.environ, GOFLAGS='-mod=mod', GOPROXY='off', GOSUMDB='off', GOTOOLCHAIN='local')
STD_INITS = ['errors', 'io', 'strings', 'bytes', 'bufio', 'strconv', 'unicode/utf8', 'path', 'sort',
             'pault.ag/go/topsort', 'encoding/hex', 'path/filepath', 'io/ioutil']


def harness_files():
    """{virtual path in /repo: real path under /verif/harness}"""
    ov = {}
    for p in glob.glob(os.path.join(VERIF, 'harness', '*', '*.go')):
        pkg = os.path.basename(os.path.dirname(p))
        ov[os.path.join(REPO, pkg, os.path.basename(p))] = p
    return ov


def ensure_exporter():
    exe = os.path.join(VERIF, 'engine', 'bin', 'ssaexport')
    src = os.path.join(VERIF, 'engine', 'ssaexport')
    if not os.path.exists(exe) or os.path.getmtime(exe) < os.path.getmtime(os.path.join(src, 'main.go')):
        os.makedirs(os.path.dirname(exe), exist_ok=True)
        subprocess.check_call(['go', 'build', '-o', exe, '.'], cwd=src, env=GOENV)
    return exe


def tree_hash(extra=''):
    h = hashlib.sha256()
    files = sorted(glob.glob(os.path.join(REPO, '**', '*.go'), recursive=True)) + [os.path.join(REPO, 'go.mod')]
    files += sorted(harness_files().values())
    files += [os.path.join(VERIF, 'engine', 'ssaexport', 'main.go')]
    for f in files:
        h.update(f.encode())
        h.update(open(f, 'rb').read())
    h.update(extra.encode())
    return h.hexdigest()[:24]


def export(roots, inits=(), types=(), pkgs='./...'):
    """(re)generate the SSA export from /repo's current working tree; cached by content hash"""
    exe = ensure_exporter()
    os.makedirs(CACHE, exist_ok=True)
    stop = '\n'.join(sorted(models.stop_list()))
    inits = list(dict.fromkeys(list(inits) + STD_INITS + [MOD + '/' + p for p in ('version', 'dependency', 'control', 'deb', 'changelog', 'hashio', 'internal')]))
    key = tree_hash(json.dumps([sorted(roots), inits, sorted(types), pkgs]) + stop)
    out = os.path.join(CACHE, 'ssa_%s.json' % key)
    if not os.path.exists(out):
        ovf = os.path.join(CACHE, 'ov_%s.json' % key)
        json.dump(harness_files(), open(ovf, 'w'))
        stopf = os.path.join(CACHE, 'stop_%s.txt' % key)
        open(stopf, 'w').write(stop)
        cmd = [exe, '-out', out + '.tmp', '-dir', REPO, '-overlay', ovf, '-stop', stopf, '-pkgs', pkgs,
               '-roots', ','.join(roots), '-inits', ','.join(inits), '-types', ','.join(types)]
        t = time.time()
        r = subprocess.run(cmd, env=GOENV, capture_output=True, text=True)
        if r.returncode != 0:
            sys.stderr.write(r.stderr)
            raise SystemExit('ssaexport failed (exit %d): the tree does not build with the harness overlay' % r.returncode)
        os.rename(out + '.tmp', out)
        # keep the cache small
        old = sorted(glob.glob(os.path.join(CACHE, 'ssa_*.json')), key=os.path.getmtime)
        for f in old[:-6]:
            os.remove(f)
    return Prog(out), inits


def symstr(name, n):
    return Str(z3.BitVec('%s_%d' % (name, i), 8) for i in range(n))


def in_set(b, chars):
    """condition: byte term b is one of chars (bytes)"""
    vals = sorted(set(chars))
    cs = []
    i = 0
    while i < len(vals):
        j = i
        while j + 1 < len(vals) and vals[j + 1] == vals[j] + 1:
            j += 1
        if i == j:
            cs.append(b == vals[i])
        else:
            cs.append(z3.And(z3.UGE(b, vals[i]), z3.ULE(b, vals[j])))
        i = j + 1
    return cs[0] if len(cs) == 1 else z3.Or(*cs)


def model_bytes(m, s):
    out = []
    for b in s:
        if isinstance(b, z3.ExprRef):
            out.append(m.eval(b, model_completion=True).as_long())
        else:
            out.append(b)
    return bytes(out)


def model_int(m, v, signed=True):
    if not isinstance(v, z3.ExprRef):
        return v
    r = m.eval(v, model_completion=True)
    return r.as_signed_long() if signed else r.as_long()


# ---------------------------------------------------------------------- native execution of harness functions
def _enc_arg(a):
    import base64
    if isinstance(a, (bytes, bytearray)):
        return base64.b64encode(bytes(a)).decode()
    if isinstance(a, bool):
        return a
    if isinstance(a, int):
        return str(a)
    if isinstance(a, (list, tuple)):
        return [_enc_arg(x) for x in a]
    raise TypeError('cannot encode %r' % (a,))


def _dec_ret(r):
    import base64
    if isinstance(r, dict) and 's' in r:
        return base64.b64decode(r['s'])
    if isinstance(r, str):
        try:
            return int(r)
        except ValueError:
            return r
    if isinstance(r, list):
        return [_dec_ret(x) for x in r]
    return r


def native_run(pkg, calls, timeout_ms=10000, keep=None, race=False):
    """run harness functions natively (go test with the harness overlay) against /repo's working tree.
    calls: [(func, [args])] ; returns list of dicts {'ret': [...]} | {'panic': msg} | {'timeout': True}"""
    os.makedirs(CACHE, exist_ok=True)
    ov = dict(harness_files())
    tmpl = open(os.path.join(VERIF, 'harness', '_common', 'zz_verif_replay_test.go.tmpl')).read()
    tf = os.path.join(CACHE, 'zz_verif_replay_%s_test.go' % pkg)
    open(tf, 'w').write(tmpl.replace('PKGNAME', pkg))
    ov[os.path.join(REPO, pkg, 'zz_verif_replay_test.go')] = tf
    ovf = os.path.join(CACHE, 'goverlay_%s_%d.json' % (pkg, os.getpid()))
    json.dump({'Replace': ov}, open(ovf, 'w'))
    results = []
    todo = list(calls)
    n = 0
    while todo:
        req = keep if (keep and n == 0) else os.path.join(CACHE, 'req_%s_%d_%d.json' % (pkg, os.getpid(), n))
        n += 1
        json.dump({'calls': [{'func': f, 'args': [_enc_arg(a) for a in args]} for f, args in todo], 'timeout_ms': timeout_ms}, open(req, 'w'))
        if os.path.exists(req + '.out'):
            os.remove(req + '.out')
        env = dict(GOENV, VERIF_REPLAY=req, VERIF_PYTHON=sys.executable)
        r = subprocess.run(['go', 'test'] + (['-race'] if race else []) + ['-tags', 'verif', '-vet=off', '-count=1', '-overlay', ovf, '-run', '^TestVerifReplay$',
                            '-timeout', '20m', './' + pkg], cwd=REPO, env=env, capture_output=True, text=True)
        if race and ('DATA RACE' in r.stdout + r.stderr or 'concurrent map' in r.stdout + r.stderr):
            return [{'race': True}]
        if not os.path.exists(req + '.out'):
            raise RuntimeError('native run failed:\n' + r.stdout[-3000:] + r.stderr[-3000:])
        out = json.load(open(req + '.out'))
        got = []
        for o in out:
            if 'ret' in o:
                o['ret'] = [_dec_ret(x) for x in o['ret']]
            got.append(o)
        results.extend(got)
        todo = todo[len(got):]
        if req != keep:
            os.remove(req)
            os.remove(req + '.out')
        if got and not got[-1].get('timeout') and todo:
            raise RuntimeError('native runner stopped early without a timeout')
    os.remove(ovf)
    return results
