# Model of package reflect over the interpreter's own typed heap.  Types are concrete (they come from
# go/types through the exporter), so reflection control flow is concrete; only field *values* are symbolic.
# reflect.Value  -> Opaque('rv', (type id, ('val', v) | ('ptr', Ptr), addressable))
# reflect.Type   -> Iface('*reflect.rtype', Opaque('rt', type id))
import z3
from z3 import ZeroExt, SignExt, Extract
from .prog import Unsupported
from .values import *
from .models import model, MODELS

KINDS = {'bool': 1, 'int': 2, 'int8': 3, 'int16': 4, 'int32': 5, 'rune': 5, 'int64': 6, 'uint': 7, 'uint8': 8, 'byte': 8, 'uint16': 9, 'uint32': 10,
         'uint64': 11, 'uintptr': 12, 'float32': 13, 'float64': 14, 'complex64': 15, 'complex128': 16, 'string': 24, 'unsafe.Pointer': 26, 'Pointer': 26}
KIND_NAMES = {0: 'invalid', 1: 'bool', 2: 'int', 3: 'int8', 4: 'int16', 5: 'int32', 6: 'int64', 7: 'uint', 8: 'uint8', 9: 'uint16', 10: 'uint32',
              11: 'uint64', 12: 'uintptr', 13: 'float32', 14: 'float64', 15: 'complex64', 16: 'complex128', 17: 'array', 18: 'chan', 19: 'func',
              20: 'interface', 21: 'map', 22: 'ptr', 23: 'slice', 24: 'string', 25: 'struct', 26: 'unsafe.Pointer'}
K_ARRAY, K_CHAN, K_FUNC, K_IFACE, K_MAP, K_PTR, K_SLICE, K_STRING, K_STRUCT = 17, 18, 19, 20, 21, 22, 23, 24, 25
RTYPE = '*reflect.rtype'


def tkind(I, t):
    P = I.prog
    if t not in P.types:
        if t.startswith('*'):
            return K_PTR
        if t.startswith('[]'):
            return K_SLICE
        raise Unsupported('reflect: unknown type ' + t)
    _, ty = P.under(t)
    k = ty['kind']
    if k == 'basic':
        n = ty['name']
        if n in KINDS:
            return KINDS[n]
        raise Unsupported('reflect kind of basic ' + n)
    return {'array': K_ARRAY, 'chan': K_CHAN, 'signature': K_FUNC, 'interface': K_IFACE, 'map': K_MAP, 'pointer': K_PTR, 'slice': K_SLICE, 'struct': K_STRUCT}[k]


def telem(I, t):
    P = I.prog
    if t not in P.types:
        if t.startswith('*'):
            return t[1:]
        if t.startswith('[]'):
            return t[2:]
        raise Unsupported('reflect: unknown type ' + t)
    _, ty = P.under(t)
    if 'elem' not in ty:
        raise GoPanic('reflect: Elem of invalid type ' + t)
    return ty['elem']


def mk_type(t):
    return Iface(RTYPE, Opaque('rt', t))


def mk_rv(t, ref, addr=False):
    return Opaque('rv', (t, ref, addr))


# the third component: False / True (addressable) / 2 (addressable, read-only: reached through an unexported field)
# / 3 (read-only, not addressable)
def is_addr(a):
    return a is True or a == 2


def is_ro(a):
    return a == 2 or a == 3


def with_ro(a, ro):
    if not ro:
        return a
    return 2 if is_addr(a) else 3


def rv_parts(v):
    if type(v) is not Opaque or v.kind != 'rv':
        if type(v) is Struct:
            raise GoPanic('reflect: call of method on zero Value')
        raise Unsupported('not a reflect.Value: %r' % (v,))
    return v.data


def rv_get(I, st, v):
    t, ref, _ = rv_parts(v)
    if ref[0] == 'val':
        return ref[1]
    return I.load(st, ref[1])


@model('reflect.ValueOf')
def _valueof(I, st, args):
    i = args[0]
    if i is None:
        return Struct((None, None, 0))
    return mk_rv(i.t, ('val', i.v))


@model('reflect.TypeOf')
def _typeof(I, st, args):
    i = args[0]
    if i is None:
        return None
    return mk_type(i.t)


@model('reflect.New')
def _new(I, st, args):
    t = args[0].v.data
    o = I.alloc(st, t)
    return mk_rv('*' + t, ('val', Ptr(o, ())))


@model('reflect.Zero')
def _zero(I, st, args):
    t = args[0].v.data
    return mk_rv(t, ('val', I.zero(t)))


@model('reflect.Indirect')
def _indirect(I, st, args):
    t, ref, _ = rv_parts(args[0])
    if tkind(I, t) != K_PTR:
        return args[0]
    return _v_elem(I, st, args)


@model('reflect.Append')
def _append(I, st, args):
    s, xs = args
    t, _, _ = rv_parts(s)
    et = telem(I, t)
    cur = rv_get(I, st, s)
    cells = I.slice_cells(st, cur)
    add = tuple(rv_get(I, st, x) for x in I.slice_cells(st, xs))
    if cur is not None and cur.len + len(add) <= cur.cap:
        I.slice_store(st, cur, cur.len, add)
        ns = Slice(cur.obj, cur.path, cur.off, cur.len + len(add), cur.cap)
    else:
        n = len(cells) + len(add)
        old = cur.cap if cur is not None else 0
        nc = max(n, 2 * old) if old < 256 else max(n, old + (old + 768) // 4)
        ns = I.new_slice(st, et, cells + add, cap=nc)
    return mk_rv(t, ('val', ns))


@model('reflect.MakeSlice')
def _makeslice(I, st, args):
    t = args[0].v.data
    n, c = args[1], args[2]
    if is_sym(n) or is_sym(c):
        raise Unsupported('reflect.MakeSlice symbolic')
    et = telem(I, t)
    return mk_rv(t, ('val', I.new_slice(st, et, (I.zero(et),) * n, cap=c)))


# ---- Value methods
@model('(reflect.Value).Type')
def _v_type(I, st, args):
    t, _, _ = rv_parts(args[0])
    return mk_type(t)


@model('(reflect.Value).Kind')
def _v_kind(I, st, args):
    if type(args[0]) is Struct:
        return 0
    t, _, _ = rv_parts(args[0])
    return tkind(I, t)


@model('(reflect.Value).IsValid')
def _v_isvalid(I, st, args):
    return type(args[0]) is Opaque


@model('(reflect.Value).Elem')
def _v_elem(I, st, args):
    t, ref, a0 = rv_parts(args[0])
    k = tkind(I, t)
    v = rv_get(I, st, args[0])
    if k == K_PTR:
        if v is None:
            return Struct((None, None, 0))
        return mk_rv(telem(I, t), ('ptr', v), with_ro(True, is_ro(a0)))
    if k == K_IFACE:
        if v is None:
            return Struct((None, None, 0))
        return mk_rv(v.t, ('val', v.v), with_ro(False, is_ro(a0)))
    raise GoPanic('reflect: call of reflect.Value.Elem on %s Value' % KIND_NAMES[k])


@model('(reflect.Value).NumField')
def _v_numfield(I, st, args):
    t, _, _ = rv_parts(args[0])
    if tkind(I, t) != K_STRUCT:
        raise GoPanic('reflect: call of reflect.Value.NumField on %s Value' % KIND_NAMES[tkind(I, t)])
    return len(I.prog.fields(t))


@model('(reflect.Value).Field')
def _v_field(I, st, args):
    t, ref, addr = rv_parts(args[0])
    i = args[1]
    if tkind(I, t) != K_STRUCT:
        raise GoPanic('reflect: call of reflect.Value.Field on %s Value' % KIND_NAMES[tkind(I, t)])
    fs = I.prog.fields(t)
    if is_sym(i) or not (0 <= i < len(fs)):
        raise GoPanic('reflect: Field index out of range')
    ft = fs[i]['type']
    nm = fs[i].get('name', '')
    ro = is_ro(addr) or (nm[:1].islower() or nm[:1] == '_')
    if ref[0] == 'ptr':
        p = ref[1]
        return mk_rv(ft, ('ptr', Ptr(p.obj, p.path + (i,))), with_ro(True if is_addr(addr) else False, ro))
    return mk_rv(ft, ('val', ref[1][i]), with_ro(False, ro))


@model('(reflect.Value).Index')
def _v_index(I, st, args):
    t, ref, addr = rv_parts(args[0])
    i = args[1]
    k = tkind(I, t)
    if is_sym(i):
        raise Unsupported('reflect Index symbolic')
    v = rv_get(I, st, args[0])
    if k == K_SLICE:
        n = 0 if v is None else v.len
        if not (0 <= i < n):
            raise GoPanic('reflect: slice index out of range')
        return mk_rv(telem(I, t), ('ptr', Ptr(v.obj, v.path + (v.off + i,))), with_ro(True, is_ro(addr)))
    if k == K_ARRAY:
        if not (0 <= i < len(v)):
            raise GoPanic('reflect: array index out of range')
        if ref[0] == 'ptr':
            return mk_rv(telem(I, t), ('ptr', Ptr(ref[1].obj, ref[1].path + (i,))), addr)
        return mk_rv(telem(I, t), ('val', v[i]), with_ro(False, is_ro(addr)))
    if k == K_STRING:
        if not (0 <= i < len(v)):
            raise GoPanic('reflect: string index out of range')
        return mk_rv('uint8', ('val', v[i]))
    raise GoPanic('reflect: call of reflect.Value.Index on %s Value' % KIND_NAMES[k])


@model('(reflect.Value).Len')
def _v_len(I, st, args):
    t, ref, _ = rv_parts(args[0])
    k = tkind(I, t)
    v = rv_get(I, st, args[0])
    if k == K_SLICE:
        return 0 if v is None else v.len
    if k in (K_STRING, K_ARRAY):
        return len(v)
    if k == K_MAP:
        return 0 if v is None else len(I.heapget(st, v.obj))
    raise GoPanic('reflect: call of reflect.Value.Len on %s Value' % KIND_NAMES[k])


@model('(reflect.Value).Addr')
def _v_addr(I, st, args):
    t, ref, addr = rv_parts(args[0])
    if ref[0] != 'ptr' or not is_addr(addr):
        raise GoPanic('reflect.Value.Addr of unaddressable value')
    return mk_rv('*' + t, ('val', ref[1]), with_ro(False, is_ro(addr)))


@model('(reflect.Value).CanAddr')
def _v_canaddr(I, st, args):
    t, ref, addr = rv_parts(args[0])
    return ref[0] == 'ptr' and is_addr(addr)


@model('(reflect.Value).CanSet')
def _v_canset(I, st, args):
    t, ref, addr = rv_parts(args[0])
    return ref[0] == 'ptr' and addr is True


@model('(reflect.Value).CanInterface')
def _v_caninterface(I, st, args):
    t, ref, addr = rv_parts(args[0])
    return not is_ro(addr)


@model('(reflect.Value).Interface')
def _v_interface(I, st, args):
    t, ref, a0 = rv_parts(args[0])
    if is_ro(a0):
        raise GoPanic('reflect.Value.Interface: cannot return value obtained from unexported field or method')
    v = rv_get(I, st, args[0])
    if tkind(I, t) == K_IFACE:
        return v
    return Iface(t, v)


@model('(reflect.Value).IsNil')
def _v_isnil(I, st, args):
    t, ref, _ = rv_parts(args[0])
    k = tkind(I, t)
    if k not in (K_PTR, K_SLICE, K_MAP, K_IFACE, K_FUNC, K_CHAN):
        raise GoPanic('reflect: call of reflect.Value.IsNil on %s Value' % KIND_NAMES[k])
    return rv_get(I, st, args[0]) is None


@model('(reflect.Value).IsZero')
def _v_iszero(I, st, args):
    t, ref, _ = rv_parts(args[0])
    v = rv_get(I, st, args[0])
    return I.value_eq(v, I.zero(t)) if tkind(I, t) not in (K_SLICE, K_MAP, K_FUNC) else (v is None)


def _settable(args, what):
    t, ref, addr = rv_parts(args[0])
    if is_ro(addr):
        raise GoPanic('reflect: reflect.Value.%s using value obtained using unexported field' % what)
    if ref[0] != 'ptr' or not is_addr(addr):
        raise GoPanic('reflect: reflect.Value.%s using unaddressable value' % what)
    return t, ref[1]


@model('(reflect.Value).Set')
def _v_set(I, st, args):
    t, p = _settable(args, 'Set')
    xt, _, _ = rv_parts(args[1])
    x = rv_get(I, st, args[1])
    if tkind(I, t) == K_IFACE and tkind(I, xt) != K_IFACE:
        x = Iface(xt, x)
    elif xt != t and I.prog.under(xt)[0] != I.prog.under(t)[0] if (xt in I.prog.types and t in I.prog.types) else xt != t:
        raise GoPanic('reflect.Set: value of type %s is not assignable to type %s' % (xt, t))
    I.store(st, p, x)
    return None


@model('(reflect.Value).SetString')
def _v_setstring(I, st, args):
    t, p = _settable(args, 'SetString')
    if tkind(I, t) != K_STRING:
        raise GoPanic('reflect: call of reflect.Value.SetString on %s Value' % KIND_NAMES[tkind(I, t)])
    I.store(st, p, args[1])
    return None


@model('(reflect.Value).SetBool')
def _v_setbool(I, st, args):
    t, p = _settable(args, 'SetBool')
    if tkind(I, t) != 1:
        raise GoPanic('reflect: call of reflect.Value.SetBool on %s Value' % KIND_NAMES[tkind(I, t)])
    I.store(st, p, args[1])
    return None


def _fit(x, w, signed):
    if not is_sym(x):
        return norm(x, w, signed)
    return x if w == 64 else Extract(w - 1, 0, x)


@model('(reflect.Value).SetInt')
def _v_setint(I, st, args):
    t, p = _settable(args, 'SetInt')
    k = tkind(I, t)
    if k not in (2, 3, 4, 5, 6):
        raise GoPanic('reflect: call of reflect.Value.SetInt on %s Value' % KIND_NAMES[k])
    w = I.prog.intinfo(t)[0]
    I.store(st, p, _fit(args[1], w, True))
    return None


@model('(reflect.Value).SetUint')
def _v_setuint(I, st, args):
    t, p = _settable(args, 'SetUint')
    k = tkind(I, t)
    if k not in (7, 8, 9, 10, 11, 12):
        raise GoPanic('reflect: call of reflect.Value.SetUint on %s Value' % KIND_NAMES[k])
    w = I.prog.intinfo(t)[0]
    I.store(st, p, _fit(args[1], w, False))
    return None


@model('(reflect.Value).String')
def _v_string(I, st, args):
    if type(args[0]) is Struct:
        return mkstr('<invalid Value>')
    t, ref, _ = rv_parts(args[0])
    if tkind(I, t) == K_STRING:
        return rv_get(I, st, args[0])
    return mkstr('<%s Value>' % t)


@model('(reflect.Value).Int')
def _v_int(I, st, args):
    t, ref, _ = rv_parts(args[0])
    k = tkind(I, t)
    if k not in (2, 3, 4, 5, 6):
        raise GoPanic('reflect: call of reflect.Value.Int on %s Value' % KIND_NAMES[k])
    v = rv_get(I, st, args[0])
    w = I.prog.intinfo(t)[0]
    if is_sym(v) and w < 64:
        return SignExt(64 - w, v)
    return v


@model('(reflect.Value).Uint')
def _v_uint(I, st, args):
    t, ref, _ = rv_parts(args[0])
    k = tkind(I, t)
    if k not in (7, 8, 9, 10, 11, 12):
        raise GoPanic('reflect: call of reflect.Value.Uint on %s Value' % KIND_NAMES[k])
    v = rv_get(I, st, args[0])
    w = I.prog.intinfo(t)[0]
    if is_sym(v) and w < 64:
        return ZeroExt(64 - w, v)
    return v


@model('(reflect.Value).Bool')
def _v_bool(I, st, args):
    t, ref, _ = rv_parts(args[0])
    if tkind(I, t) != 1:
        raise GoPanic('reflect: call of reflect.Value.Bool on %s Value' % KIND_NAMES[tkind(I, t)])
    return rv_get(I, st, args[0])


# ---- Type methods (reached through the reflect.Type interface)
def tmodel(*names):
    def deco(f):
        for n in names:
            MODELS[(RTYPE, n)] = f
        return f
    return deco


@tmodel('Kind')
def _t_kind(I, st, args):
    return tkind(I, args[0].data)


@tmodel('Elem')
def _t_elem(I, st, args):
    return mk_type(telem(I, args[0].data))


@tmodel('NumField')
def _t_numfield(I, st, args):
    t = args[0].data
    if tkind(I, t) != K_STRUCT:
        raise GoPanic('reflect: NumField of non-struct type ' + t)
    return len(I.prog.fields(t))


@tmodel('Name')
def _t_name(I, st, args):
    t = args[0].data
    ty = I.prog.types.get(t)
    if ty is None:
        return Str()
    if ty['kind'] == 'named':
        return mkstr(ty['name'])
    if ty['kind'] == 'basic':
        return mkstr(ty['name'])
    return Str()


@tmodel('String')
def _t_string(I, st, args):
    t = args[0].data
    ty = I.prog.types.get(t)
    if ty is not None and ty['kind'] == 'named':
        pkg = ty.get('pkg', '')
        return mkstr((pkg.rsplit('/', 1)[-1] + '.' if pkg else '') + ty['name'])
    return mkstr(t)


@tmodel('PkgPath')
def _t_pkgpath(I, st, args):
    ty = I.prog.types.get(args[0].data)
    return mkstr(ty.get('pkg', '')) if ty is not None and ty['kind'] == 'named' else Str()


@tmodel('Field')
def _t_field(I, st, args):
    t = args[0].data
    i = args[1]
    if tkind(I, t) != K_STRUCT:
        raise GoPanic('reflect: Field of non-struct type ' + t)
    fs = I.prog.fields(t)
    if is_sym(i) or not (0 <= i < len(fs)):
        raise GoPanic('reflect: Field index out of bounds')
    f = fs[i]
    sf = 'reflect.StructField'
    names = [x['name'] for x in I.prog.fields(sf)]
    vals = dict(Name=mkstr(f['name']), PkgPath=mkstr('' if f['exported'] else f.get('pkg', '')), Type=mk_type(f['type']), Tag=mkstr(f['tag']),
                Offset=0, Index=I.new_slice(st, 'int', (i,)), Anonymous=bool(f['embedded']))
    return Struct(vals[n] for n in names)


@tmodel('Implements')
def _t_implements(I, st, args):
    t = args[0].data
    it = args[1].v.data
    return I.prog.implements(t, it)


@tmodel('Comparable')
def _t_comparable(I, st, args):
    return tkind(I, args[0].data) not in (K_SLICE, K_MAP, K_FUNC)


@model('(reflect.StructTag).Get')
def _tag_get(I, st, args):
    tag, key = args
    if not concrete_str(tag) or not concrete_str(key):
        raise Unsupported('symbolic struct tag')
    return mkstr(tag_lookup(bytes(tag).decode('latin-1'), bytes(key).decode('latin-1'))[0].encode('latin-1'))


@model('(reflect.StructTag).Lookup')
def _tag_lookup(I, st, args):
    tag, key = args
    v, ok = tag_lookup(bytes(tag).decode('latin-1'), bytes(key).decode('latin-1'))
    return Tup((mkstr(v.encode('latin-1')), ok))


def tag_lookup(tag, key):
    """reflect.StructTag.Lookup, transcribed"""
    while tag:
        i = 0
        while i < len(tag) and tag[i] == ' ':
            i += 1
        tag = tag[i:]
        if not tag:
            break
        i = 0
        while i < len(tag) and tag[i] > ' ' and tag[i] != ':' and tag[i] != '"' and ord(tag[i]) != 0x7f:
            i += 1
        if i == 0 or i + 1 >= len(tag) or tag[i] != ':' or tag[i + 1] != '"':
            break
        name = tag[:i]
        tag = tag[i + 1:]
        i = 1
        while i < len(tag) and tag[i] != '"':
            if tag[i] == '\\':
                i += 1
            i += 1
        if i >= len(tag):
            break
        qvalue = tag[:i + 1]
        tag = tag[i + 1:]
        if key == name:
            try:
                import ast
                return ast.literal_eval(qvalue), True
            except Exception:
                break
    return '', False


@model('(reflect.Kind).String')
def _kind_string(I, st, args):
    k = args[0]
    if is_sym(k):
        raise Unsupported('symbolic reflect.Kind')
    return mkstr(KIND_NAMES.get(k, 'kind%d' % k))
