# Per-byte domain tracking: decides branch conditions that constrain a single 8-bit input variable
# (the overwhelming majority in byte-at-a-time parsers) without a solver call.
#
# Soundness argument.  A state's path condition is  D /\ M  where D is a conjunction of single-variable
# constraints (kept as a 256-bit mask per variable: the set of byte values still allowed) and M the conjunction
# of all other conjuncts; mvars(M) is the set of variables M mentions.  Invariant: D /\ M is satisfiable.
# For a condition c over one variable v not in mvars(M):  D /\ M /\ c is satisfiable  iff  dom(v) /\ tt(c) != 0
# (change v in a satisfying assignment to a value in the intersection: M does not mention v, the other
# variables keep their values).  The same holds for a conjunction of such conditions over distinct variables.
# Everything else is passed to the solver with the full path condition.
import numpy as np
import z3

FULL = (1 << 256) - 1
_VALS = np.arange(256, dtype=np.uint64)
_TT = {}       # ast id -> (expr, result) where result: ('b', mask) | ('v', array, width) | None
_VARS = {}     # ast id -> (expr, frozenset of variable names) ; None in the set means "something else than a BV8 const"
_STRUCT = {}

K = z3


def _mask_of(boolarr):
    bits = np.packbits(boolarr.astype(np.uint8), bitorder='little')
    return int.from_bytes(bits.tobytes(), 'little')


def _arr_of(mask):
    return np.unpackbits(np.frombuffer(mask.to_bytes(32, 'little'), dtype=np.uint8), bitorder='little').astype(bool)


def free_vars(e):
    i = e.get_id()
    r = _VARS.get(i)
    if r is not None:
        return r[1]
    k = e.decl().kind() if z3.is_app(e) else None
    if z3.is_const(e) and k == z3.Z3_OP_UNINTERPRETED:
        if z3.is_bv(e) and e.size() == 8:
            s = frozenset([e.decl().name()])
        else:
            s = frozenset([None])
    elif not z3.is_app(e):
        s = frozenset([None])
    else:
        s = frozenset()
        for c in e.children():
            s = s | free_vars(c)
    _VARS[i] = (e, s)
    return s


def _sx(a, w):
    """interpret unsigned array a of width w as signed int64"""
    a = a.astype(np.int64)
    if w < 64:
        a = np.where(a >= (1 << (w - 1)), a - (1 << w), a)
    return a


def tt(e, var):
    """truth table / value table of e as a function of the single variable var"""
    i = e.get_id()
    r = _TT.get(i)
    if r is not None:
        return r[1]
    res = _tt(e, var)
    _TT[i] = (e, res)
    return res


def _tt(e, var):
    if z3.is_bv_value(e):
        w = e.size()
        if w > 64:
            return None
        return ('v', np.full(256, e.as_long(), dtype=np.uint64), w)
    if z3.is_true(e):
        return ('b', FULL)
    if z3.is_false(e):
        return ('b', 0)
    if not z3.is_app(e):
        return None
    k = e.decl().kind()
    if k == z3.Z3_OP_UNINTERPRETED:
        if z3.is_const(e) and z3.is_bv(e) and e.size() == 8 and e.decl().name() == var:
            return ('v', _VALS.copy(), 8)
        return None
    ch = [tt(c, var) for c in e.children()]
    if any(c is None for c in ch):
        return None
    if k == z3.Z3_OP_AND:
        m = FULL
        for c in ch:
            m &= c[1]
        return ('b', m)
    if k == z3.Z3_OP_OR:
        m = 0
        for c in ch:
            m |= c[1]
        return ('b', m)
    if k == z3.Z3_OP_NOT:
        return ('b', FULL & ~ch[0][1])
    if k == z3.Z3_OP_IMPLIES:
        return ('b', (FULL & ~ch[0][1]) | ch[1][1])
    if k == z3.Z3_OP_XOR:
        return ('b', ch[0][1] ^ ch[1][1])
    if k in (z3.Z3_OP_EQ, z3.Z3_OP_IFF):
        if ch[0][0] == 'b':
            return ('b', FULL & ~(ch[0][1] ^ ch[1][1]))
        return ('b', _mask_of(ch[0][1] == ch[1][1]))
    if k == z3.Z3_OP_DISTINCT and len(ch) == 2:
        if ch[0][0] == 'b':
            return ('b', ch[0][1] ^ ch[1][1])
        return ('b', _mask_of(ch[0][1] != ch[1][1]))
    if k == z3.Z3_OP_ITE:
        c = _arr_of(ch[0][1])
        if ch[1][0] == 'b':
            return ('b', (ch[0][1] & ch[1][1]) | (FULL & ~ch[0][1] & ch[2][1]))
        return ('v', np.where(c, ch[1][1], ch[2][1]), ch[1][2])
    if ch and ch[0][0] == 'v':
        w = ch[0][2]
        msk = np.uint64((1 << w) - 1) if w < 64 else np.uint64(0xFFFFFFFFFFFFFFFF)
        a = ch[0][1]
        b = ch[1][1] if len(ch) > 1 and ch[1][0] == 'v' else None
        if k == z3.Z3_OP_ULEQ: return ('b', _mask_of(a <= b))
        if k == z3.Z3_OP_ULT: return ('b', _mask_of(a < b))
        if k == z3.Z3_OP_UGEQ: return ('b', _mask_of(a >= b))
        if k == z3.Z3_OP_UGT: return ('b', _mask_of(a > b))
        if k == z3.Z3_OP_SLEQ: return ('b', _mask_of(_sx(a, w) <= _sx(b, w)))
        if k == z3.Z3_OP_SLT: return ('b', _mask_of(_sx(a, w) < _sx(b, w)))
        if k == z3.Z3_OP_SGEQ: return ('b', _mask_of(_sx(a, w) >= _sx(b, w)))
        if k == z3.Z3_OP_SGT: return ('b', _mask_of(_sx(a, w) > _sx(b, w)))
        if k == z3.Z3_OP_BADD:
            r = a
            for c in ch[1:]:
                r = (r + c[1]) & msk
            return ('v', r, w)
        if k == z3.Z3_OP_BSUB: return ('v', (a - b) & msk, w)
        if k == z3.Z3_OP_BMUL:
            r = a
            for c in ch[1:]:
                r = (r * c[1]) & msk
            return ('v', r, w)
        if k == z3.Z3_OP_BAND:
            r = a
            for c in ch[1:]:
                r = r & c[1]
            return ('v', r, w)
        if k == z3.Z3_OP_BOR:
            r = a
            for c in ch[1:]:
                r = r | c[1]
            return ('v', r, w)
        if k == z3.Z3_OP_BXOR:
            r = a
            for c in ch[1:]:
                r = r ^ c[1]
            return ('v', r, w)
        if k == z3.Z3_OP_BNOT: return ('v', (~a) & msk, w)
        if k == z3.Z3_OP_BNEG: return ('v', (np.uint64(0) - a) & msk, w)
        if k == z3.Z3_OP_ZERO_EXT:
            nw = w + e.params()[0]
            return ('v', a, nw) if nw <= 64 else None
        if k == z3.Z3_OP_SIGN_EXT:
            nw = w + e.params()[0]
            if nw > 64:
                return None
            nm = np.uint64((1 << nw) - 1) if nw < 64 else np.uint64(0xFFFFFFFFFFFFFFFF)
            return ('v', _sx(a, w).astype(np.uint64) & nm, nw)
        if k == z3.Z3_OP_EXTRACT:
            hi, lo = e.params()
            return ('v', (a >> np.uint64(lo)) & np.uint64((1 << (hi - lo + 1)) - 1), hi - lo + 1)
        if k == z3.Z3_OP_CONCAT:
            tw = sum(c[2] for c in ch)
            if tw > 64:
                return None
            r = np.zeros(256, dtype=np.uint64)
            for c in ch:
                r = (r << np.uint64(c[2])) | c[1]
            return ('v', r, tw)
        if k == z3.Z3_OP_BSHL:
            sh = np.minimum(b, np.uint64(63))
            return ('v', np.where(b >= np.uint64(w), np.uint64(0), (a << sh) & msk), w)
        if k == z3.Z3_OP_BLSHR:
            sh = np.minimum(b, np.uint64(63))
            return ('v', np.where(b >= np.uint64(w), np.uint64(0), a >> sh), w)
    return None


def structure(c):
    """decompose a Bool term: ('atom', var, mask) | ('and', [..]) | ('or', [..]) | ('not', x) | ('opaque', vars)"""
    i = c.get_id()
    r = _STRUCT.get(i)
    if r is not None:
        return r[1]
    vs = free_vars(c)
    res = None
    if None not in vs and len(vs) == 1:
        v = next(iter(vs))
        t = tt(c, v)
        if t is not None and t[0] == 'b':
            res = ('atom', v, t[1])
    if res is None and len(vs) == 0 and None not in vs:
        t = tt(c, '')
        if t is not None and t[0] == 'b':
            res = ('const', t[1] != 0)
    if res is None and z3.is_app(c):
        k = c.decl().kind()
        if k == z3.Z3_OP_AND:
            res = ('and', [structure(x) for x in c.children()])
        elif k == z3.Z3_OP_OR:
            res = ('or', [structure(x) for x in c.children()])
        elif k == z3.Z3_OP_NOT:
            res = ('not', structure(c.children()[0]))
    if res is None:
        res = ('opaque', frozenset(v for v in vs if v is not None))
    _STRUCT[i] = (c, res)
    return res


def reduce(s, dom):
    """simplify structure s under the domains; returns True | False | ('conj', {var: mask}) | ('mixed',)"""
    k = s[0]
    if k == 'const':
        return s[1]
    if k == 'atom':
        d = dom.get(s[1], FULL)
        m = s[2] & d
        if m == 0:
            return False
        if m == d:
            return True
        return ('conj', {s[1]: m})
    if k == 'not':
        r = reduce(s[1], dom)
        if r is True:
            return False
        if r is False:
            return True
        if r[0] == 'conj' and len(r[1]) == 1:
            (v, m), = r[1].items()
            d = dom.get(v, FULL)
            m2 = d & ~m
            if m2 == 0:
                return False
            return ('conj', {v: m2})
        return ('mixed',)
    if k == 'and':
        acc = {}
        mixed = False
        for x in s[1]:
            r = reduce(x, dom)
            if r is True:
                continue
            if r is False:
                return False
            if r[0] == 'conj':
                for v, m in r[1].items():
                    m2 = acc.get(v, dom.get(v, FULL)) & m
                    if m2 == 0:
                        return False
                    acc[v] = m2
            else:
                mixed = True
        if mixed:
            return ('mixed',)
        if not acc:
            return True
        return ('conj', acc)
    if k == 'or':
        atoms = {}
        others = 0
        for x in s[1]:
            r = reduce(x, dom)
            if r is True:
                return True
            if r is False:
                continue
            if r[0] == 'conj' and len(r[1]) == 1:
                (v, m), = r[1].items()
                atoms[v] = atoms.get(v, 0) | m
            else:
                others += 1
        if others == 0 and len(atoms) == 0:
            return False
        if others == 0 and len(atoms) == 1:
            (v, m), = atoms.items()
            if m == dom.get(v, FULL):
                return True
            return ('conj', {v: m})
        return ('mixed',)
    return ('mixed',)
