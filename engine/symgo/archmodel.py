# Abstract codecs and tar for the wiring-level claims of C14 / C16.
# The harness helpers verifTar / verifCompress are real in native runs (archive/tar, gzip, zstd writers) and are
# modelled here by tagged containers; each decoder accepts exactly the container of its own extension, so "which
# decoder was applied to which member's bytes" is exact while the codecs themselves are outside the claim.
#   compress(ext, data) = data                         if ext == ""
#                       = 01 'Z' ext 00 data           otherwise
#   tar(entries)        = (01 'T' name 00 len4 content)* 01 'E'
import z3
from .prog import Unsupported
from .values import *
from .models import model, MODELS, new_error, match_at

from .pgpmodel import read_all

MEM_T = '*verif.memReader'


def mem_reader(I, st, data, err=None):
    o = I.alloc(st, None, ('memreader', Str(data) if data is not None else Str(), 0, err))
    return Ptr(o, ())


def mem_read(I, st, ptr, p):
    rec = st.heap[ptr.obj]
    _, data, pos, err = rec
    if err is not None:
        return Tup((0, new_error(I, st, err)))
    if p is None or p.len == 0:
        return Tup((0, None))
    if pos >= len(data):
        return Tup((0, I.load(st, Ptr('io.EOF', ()))))
    n = min(p.len, len(data) - pos)
    I.slice_store(st, p, 0, tuple(data[pos:pos + n]))
    st.heap[ptr.obj] = ('memreader', data, pos + n, err)
    return Tup((n, None))


@model((MEM_T, 'Read'))
def _mem_read(I, st, args):
    return mem_read(I, st, args[0], args[1])


@model((MEM_T, 'Close'))
def _mem_close(I, st, args):
    return None


def container(ext, data):
    if ext == b'':
        return tuple(data)
    return (1, ord('Z')) + tuple(ext) + (0,) + tuple(data)


@model('pault.ag/go/debian/deb.verifCompress')
def _verif_compress(I, st, args):
    ext, data = args
    if not concrete_str(ext):
        raise Unsupported('symbolic compression extension in the harness')
    return Str(container(bytes(ext), data))


@model('pault.ag/go/debian/deb.verifCompressSplit')
def _verif_compress_split(I, st, args):
    ext, data, cut = args
    if not concrete_str(ext) or not isinstance(cut, int):
        raise Unsupported('symbolic compression extension or cut in the harness')
    if bytes(ext) != b'.gz' or cut <= 0 or cut >= len(data):
        return Str(container(bytes(ext), data))
    # two gzip members: 01 'Y' ext 00 len4 data ; a reader in multistream mode (the default) delivers all of data,
    # one with Multistream(false) stops after the first len4 bytes
    return Str((1, ord('Y')) + tuple(bytes(ext)) + (0,) + tuple(b'%04d' % cut) + tuple(data))


@model('pault.ag/go/debian/deb.verifTar')
def _verif_tar(I, st, args):
    names = I.slice_cells(st, args[0])
    contents = I.slice_cells(st, args[1])
    out = ()
    for n, c in zip(names, contents):
        out += (1, ord('T')) + tuple(n) + (0,) + tuple(b'%04d' % len(c)) + tuple(c)
    return Str(out + (1, ord('E')))


def open_codec(I, st, ext, src, wrap):
    """drain src, check the container tag for ext, hand the payload to wrap(state, payload or None, error text)"""
    from .interp import Outcome
    outs = []
    for st2, data in read_all(I, st, src):
        if data is None:
            outs.extend(I.resolve(st2, wrap(st2, None, 'read error')))
            continue
        tag = (1, ord('Z')) + tuple(ext) + (0,)
        if len(data) < len(tag):
            outs.extend(I.resolve(st2, wrap(st2, None, 'not a %s stream' % ext.decode())))
            continue
        tag2 = (1, ord('Y')) + tuple(ext) + (0,)
        if match_at(data, 0, tag2) is True and len(data) >= len(tag2) + 4 and not any(is_sym(b) for b in data[len(tag2):len(tag2) + 4]):
            first = int(bytes(data[len(tag2):len(tag2) + 4]))
            payload = data[len(tag2) + 4:]
            for o in I.resolve(st2, wrap(st2, payload, None)):
                if o.kind == 'ret' and isinstance(o.val, Tup) and isinstance(o.val[0], Ptr):
                    g = dict(o.st.aux.get('gz_first', {}))
                    g[o.val[0].obj] = first
                    o.st.aux['gz_first'] = g
                outs.append(o)
            continue
        c = match_at(data, 0, tag)
        payload = data[len(tag):]
        alts = []
        if c is not False:
            alts.append((c, (lambda s_, payload=payload: wrap(s_, payload, None))))
        if c is not True:
            alts.append((mk_not(c), (lambda s_: wrap(s_, None, 'not a %s stream' % ext.decode()))))
        outs.extend(I.resolve(st2, ('alts', alts)))
    return ('outcomes', outs)


@model('compress/gzip.NewReader')
def _gzip_newreader(I, st, args):
    def wrap(s_, payload, err):
        if err:
            return Tup((None, new_error(I, s_, 'gzip: invalid header')))
        return Tup((mem_reader(I, s_, payload), None))
    return open_codec(I, st, b'.gz', args[0], wrap)


def _nil_guard(f, what):
    def g(I, st, args):
        if args[0] is None:
            raise GoPanic('runtime error: invalid memory address or nil pointer dereference (%s on a nil receiver)' % what)
        return f(I, st, args)
    return g


for _m in ('Read', 'Close'):
    MODELS['(*compress/gzip.Reader).' + _m] = _nil_guard((lambda m: (lambda I, st, args: mem_read(I, st, args[0], args[1]) if m == 'Read' else None))(_m), 'gzip.Reader.' + _m)


@model('(*compress/gzip.Reader).Multistream')
def _gzip_multistream(I, st, args):
    r, ok = args
    if not isinstance(ok, bool):
        raise Unsupported('symbolic Multistream argument')
    first = st.aux.get('gz_first', {}).get(r.obj)
    if not ok and first is not None:
        _, data, pos, err = st.heap[r.obj]
        if pos <= first:
            st.heap[r.obj] = ('memreader', Str(data[:first]), pos, err)
    return None


@model('github.com/xi2/xz.NewReader')
def _xz_newreader(I, st, args):
    def wrap(s_, payload, err):
        if err:
            return Tup((None, new_error(I, s_, 'xz: bad header')))
        return Tup((mem_reader(I, s_, payload), None))
    return open_codec(I, st, b'.xz', args[0], wrap)


MODELS['(*github.com/xi2/xz.Reader).Read'] = _nil_guard(lambda I, st, args: mem_read(I, st, args[0], args[1]), 'xz.Reader.Read')


@model('github.com/klauspost/compress/zstd.NewReader')
def _zstd_newreader(I, st, args):
    def wrap(s_, payload, err):
        # the real decoder reports a bad stream on Read, not at construction
        return Tup((mem_reader(I, s_, payload, 'zstd: invalid input' if err else None), None))
    return open_codec(I, st, b'.zst', args[0], wrap)


MODELS['(*github.com/klauspost/compress/zstd.Decoder).Read'] = _nil_guard(lambda I, st, args: mem_read(I, st, args[0], args[1]), 'zstd.Decoder.Read')


@model('compress/bzip2.NewReader')
def _bzip2_newreader(I, st, args):
    def wrap(s_, payload, err):
        return Iface(MEM_T, mem_reader(I, s_, payload, 'bzip2: bad magic' if err else None))
    return open_codec(I, st, b'.bz2', args[0], wrap)


@model('github.com/kjk/lzma.NewReader')
def _lzma_newreader(I, st, args):
    def wrap(s_, payload, err):
        return Iface(MEM_T, mem_reader(I, s_, payload, 'lzma: bad header' if err else None))
    return open_codec(I, st, b'.lzma', args[0], wrap)


# ---- tar
def parse_tar(data):
    """[(name, content)] or None if malformed; data has concrete structure (names/lengths concrete, contents may be symbolic)"""
    ents = []
    i = 0
    n = len(data)
    while True:
        if i + 2 > n or is_sym(data[i]) or is_sym(data[i + 1]) or data[i] != 1:
            return None
        if data[i + 1] == ord('E'):
            return ents
        if data[i + 1] != ord('T'):
            return None
        j = i + 2
        name = []
        while j < n and not (not is_sym(data[j]) and data[j] == 0):
            name.append(data[j])
            j += 1
        if j >= n or j + 5 > n:
            return None
        ln = data[j + 1:j + 5]
        if any(is_sym(b) for b in ln):
            return None
        try:
            k = int(bytes(ln))
        except ValueError:
            return None
        content = data[j + 5:j + 5 + k]
        if len(content) != k:
            return None
        ents.append((Str(name), Str(content)))
        i = j + 5 + k


@model('archive/tar.NewReader')
def _tar_newreader(I, st, args):
    from .interp import Outcome
    outs = []
    for st2, data in read_all(I, st, args[0]):
        ents = parse_tar(data) if data is not None else None
        o = I.alloc(st2, None, ('tarreader', ents, -1, 0))
        outs.append(Outcome(st2, 'ret', Ptr(o, ())))
    return ('outcomes', outs)


@model('(*archive/tar.Reader).Next')
def _tar_next(I, st, args):
    r = args[0]
    _, ents, idx, pos = st.heap[r.obj]
    if ents is None:
        return Tup((None, new_error(I, st, 'archive/tar: invalid tar header')))
    idx += 1
    if idx >= len(ents):
        st.heap[r.obj] = ('tarreader', ents, len(ents), 0)
        return Tup((None, I.load(st, Ptr('io.EOF', ()))))
    st.heap[r.obj] = ('tarreader', ents, idx, 0)
    ht = 'archive/tar.Header'
    fs = I.prog.fields(ht)
    vals = []
    for f in fs:
        if f['name'] == 'Name':
            vals.append(ents[idx][0])
        elif f['name'] == 'Size':
            vals.append(len(ents[idx][1]))
        elif f['name'] == 'Typeflag':
            vals.append(ord('0'))
        else:
            vals.append(I.zero(f['type']))
    ho = I.alloc(st, ht, Struct(vals))
    return Tup((Ptr(ho, ()), None))


@model('(*archive/tar.Reader).Read')
def _tar_read(I, st, args):
    r, p = args
    _, ents, idx, pos = st.heap[r.obj]
    if ents is None or idx < 0 or idx >= len(ents):
        return Tup((0, I.load(st, Ptr('io.EOF', ()))))
    content = ents[idx][1]
    if pos >= len(content):
        return Tup((0, I.load(st, Ptr('io.EOF', ()))))
    if p is None or p.len == 0:
        return Tup((0, None))
    avail = min(p.len, len(content) - pos)

    def deliver(n):
        def f(s_):
            I.slice_store(s_, p, 0, tuple(content[pos:pos + n]))
            s_.heap[r.obj] = ('tarreader', ents, idx, pos + n)
            if n < avail:
                s_.aux['tar_short_used'] = True
            return Tup((n, None))
        return f
    # the io.Reader contract allows short reads (decompressors deliver them at block boundaries): once per run
    # a read may return a single byte although more was asked for and available
    if avail >= 2 and not st.aux.get('tar_short_used') and getattr(I, 'nondet_env', True):
        return ('alts', [(True, deliver(avail)), (True, deliver(1))])
    return deliver(avail)(st)


@model('(*github.com/klauspost/compress/zstd.Decoder).Reset')
def _zstd_reset(I, st, args):
    dec, src = args
    from .interp import Outcome
    outs = []
    for st2, data in read_all(I, st, src):
        tag = (1, ord('Z')) + tuple(b'.zst') + (0,)
        ok = data is not None and len(data) >= len(tag) and match_at(data, 0, tag) is True
        st2.heap[dec.obj] = ('memreader', Str(data[len(tag):]) if ok else Str(), 0, None if ok else 'zstd: invalid input')
        outs.append(Outcome(st2, 'ret', None))
    return ('outcomes', outs)


@model('(*github.com/klauspost/compress/zstd.Decoder).Close')
def _zstd_close(I, st, args):
    return None
