# Program representation: go/ssa JSON produced by engine/ssaexport.
import json, base64

INTW = {'int': (64, True), 'int64': (64, True), 'int32': (32, True), 'rune': (32, True), 'int16': (16, True),
        'int8': (8, True), 'uint': (64, False), 'uint64': (64, False), 'uint32': (32, False), 'uint16': (16, False),
        'uint8': (8, False), 'byte': (8, False), 'uintptr': (64, False), 'untyped int': (64, True),
        'untyped rune': (32, True)}


class Unsupported(Exception):
    """The engine cannot encode something: the run is inconclusive (never a pass)."""


class Prog:
    def __init__(self, path):
        d = json.load(open(path))
        self.funcs = d['funcs']
        self.types = d['types']
        self.methods = d['methods']
        self.globals = d['globals']
        self.cfg = {}
        self._under = {}
        self._int = {}
        self._zero = {}
        for f in self.funcs.values():
            self._prep(f)

    def _prep(self, f):
        if 'blocks' not in f:
            return
        for b in f['blocks']:
            for ins in b['instrs']:
                for k in ('x', 'y', 'cond', 'index', 'low', 'high', 'max', 'addr', 'val', 'map', 'key', 'value',
                          'iter', 'fn', 'len', 'cap', 'reserve'):
                    o = ins.get(k)
                    if isinstance(o, dict):
                        self._prepop(o)
                for k in ('edges', 'results', 'bindings'):
                    for o in ins.get(k) or ():
                        self._prepop(o)
                c = ins.get('call')
                if c:
                    self._prepop(c['value'])
                    for o in c['args']:
                        self._prepop(o)
            self._gc_order(b)
            np = 0
            while np < len(b['instrs']) and b['instrs'][np]['op'] == 'Phi':
                np += 1
            b['nphi'] = np

    def _gc_order(self, b):
        """go/ssa evaluates `return v, f(&v)` by loading v before the call; the gc compiler (whose behaviour is what
        users observe, and what the repo's tests rely on for version.Parse) performs calls first and reads addressed
        variables afterwards.  Mark such loads so that the interpreter re-reads them at the return."""
        ins = b['instrs']
        if not ins or ins[-1]['op'] != 'Return':
            return
        ret = ins[-1]
        defs = {}
        for idx, i in enumerate(ins):
            if 'name' in i:
                defs[i['name']] = idx
        calls = [idx for idx, i in enumerate(ins) if i['op'] == 'Call' and i['call']['value']['k'] != 'builtin']
        reload = []
        for ri, o in enumerate(ret['results']):
            if o and o['k'] == 'reg' and o['n'] in defs:
                d = ins[defs[o['n']]]
                if d['op'] == 'UnOp' and d['tok'] == '*' and any(c > defs[o['n']] for c in calls):
                    reload.append((ri, d['x']))
        if reload:
            ret['reload'] = reload

    def _prepop(self, o):
        if o is None or o['k'] != 'const' or 'cv' in o:
            return
        o['cv'] = None  # filled lazily by the interpreter (needs value classes)

    def under(self, t):
        r = self._under.get(t)
        if r is None:
            t0 = t
            ty = self.types[t]
            while ty['kind'] in ('named', 'alias'):
                t = ty['under']
                ty = self.types[t]
            r = self._under[t0] = (t, ty)
        return r

    def kind(self, t):
        return self.under(t)[1]['kind']

    def intinfo(self, t):
        if t in self._int:
            return self._int[t]
        _, ty = self.under(t)
        r = None
        if ty['kind'] == 'basic':
            r = INTW.get(ty['name'])
        self._int[t] = r
        return r

    def basicname(self, t):
        _, ty = self.under(t)
        return ty.get('name') if ty['kind'] == 'basic' else None

    def is_string(self, t):
        return self.basicname(t) in ('string', 'untyped string')

    def is_bool(self, t):
        return self.basicname(t) in ('bool', 'untyped bool')

    def fields(self, t):
        return self.under(t)[1]['fields']

    def elem(self, t):
        return self.under(t)[1]['elem']

    def results(self, fid_or_sig, is_sig=False):
        sig = fid_or_sig if is_sig else self.funcs[fid_or_sig]['sig']
        return self.types[self.types[sig]['results']]['elems']

    def method(self, t, name):
        ms = self.methods.get(t)
        if ms is None:
            return None
        return ms.get(name)

    def implements(self, t, iface_t):
        _, ity = self.under(iface_t)
        need = ity['methods']
        if not need:
            return True
        if t not in self.types:
            have = getattr(self, 'synthetic_methods', {}).get(t, set())
            return all(m in have for m in need)
        if self.kind(t) == 'interface':
            have = set(self.under(t)[1]['methods'])
        else:
            ms = self.methods.get(t)
            if ms is None:
                # no exported method set: types without methods
                return False
            have = set(ms)
        return all(m in have for m in need)

    # ---- CFG information: natural loops and a loop-nest-contiguous linearisation
    def cfginfo(self, fid):
        if fid in self.cfg:
            return self.cfg[fid]
        f = self.funcs[fid]
        B = f['blocks']
        n = len(B)
        succs = [b.get('succs') or [] for b in B]
        idom = [b['idom'] for b in B]

        def dom(a, b):
            while b != -1:
                if a == b:
                    return True
                b = idom[b]
            return False
        loops = {}
        for u in range(n):
            for h in succs[u]:
                if dom(h, u):
                    body = loops.setdefault(h, {h})
                    stack = [u]
                    while stack:
                        x = stack.pop()
                        if x in body:
                            continue
                        body.add(x)
                        stack.extend(B[x].get('preds') or [])

        def linearize(nodes, header, inner):
            maximal = {}
            for h, body in inner.items():
                if not any(h in b2 and h2 != h and body < b2 for h2, b2 in inner.items()):
                    maximal[h] = body
            rep = {x: x for x in nodes}
            for h, body in maximal.items():
                for x in body:
                    rep[x] = ('L', h)
            reps = set(rep.values())
            indeg = {r: 0 for r in reps}
            out = {r: set() for r in reps}
            for u in nodes:
                for v in succs[u]:
                    if v not in nodes or v == header:
                        continue
                    if rep[u] != rep[v] and rep[v] not in out[rep[u]]:
                        out[rep[u]].add(rep[v])
                        indeg[rep[v]] += 1
            order = []
            ready = [r for r in reps if indeg[r] == 0]
            keyf = lambda r: r[1] if isinstance(r, tuple) else r
            while ready:
                ready.sort(key=keyf)
                r = ready.pop(0)
                if isinstance(r, tuple):
                    h = r[1]
                    body = maximal[h]
                    sub = {h2: b2 for h2, b2 in inner.items() if h2 != h and b2 < body}
                    order.extend(linearize(body, h, sub))
                else:
                    order.append(r)
                for s in out[r]:
                    indeg[s] -= 1
                    if indeg[s] == 0:
                        ready.append(s)
            if len(set(order)) != len(nodes):
                # irreducible or unreachable blocks: append the rest in index order
                for x in sorted(nodes):
                    if x not in order:
                        order.append(x)
            return order
        reach = set()
        stack = [0]
        while stack:
            x = stack.pop()
            if x in reach:
                continue
            reach.add(x)
            stack.extend(succs[x])
        loops = {h: b & reach for h, b in loops.items() if h in reach}
        order = linearize(reach, None, loops)
        pos = {b: i for i, b in enumerate(order)}
        loops_of = {}
        for b in range(n):
            hs = [h for h, body in loops.items() if b in body]
            hs.sort(key=lambda h: -len(loops[h]))
            loops_of[b] = hs
        regt = {}
        for p in f['params']:
            regt[p['n']] = p['t']
        for p in f['freevars']:
            regt[p['n']] = p['t']
        for b in B:
            for ins in b['instrs']:
                if 'name' in ins:
                    regt[ins['name']] = ins['type']
        info = dict(pos=pos, loops=loops, loops_of=loops_of, order=order, regt=regt)
        self.cfg[fid] = info
        return info


def b64(s):
    return base64.b64decode(s) if s else b''
