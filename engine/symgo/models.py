# Contract models for leaf functions of the standard library that bottom out in assembly,
# unsafe, the runtime or large tables.  Everything else is executed from its own SSA.
# Each model: m(I, st, args) -> value | ('alts', [(cond, value-or-callable(st))]) | ('outcomes', [...])
import itertools
import z3
from z3 import And, Or, Not, If, ULT, ULE, UGT, UGE, Extract, ZeroExt, SignExt, LShR, BitVec
from .prog import Unsupported
from .values import *

MODELS = {}
STOP_PKGS = ['fmt', 'reflect', 'os', 'time', 'log', 'sync', 'sync/atomic', 'runtime', 'unsafe', 'internal/bytealg',
             'unicode', 'syscall', 'math/rand', 'encoding/json', 'internal/reflectlite',
             'golang.org/x/crypto/openpgp', 'golang.org/x/crypto/openpgp/clearsign', 'golang.org/x/crypto/openpgp/armor',
             'golang.org/x/crypto/openpgp/packet', 'golang.org/x/crypto/openpgp/errors',
             'crypto/md5', 'crypto/sha1', 'crypto/sha256', 'crypto/sha512', 'crypto', 'hash',
             'compress/gzip', 'compress/bzip2', 'compress/flate', 'archive/tar',
             'github.com/kjk/lzma', 'github.com/klauspost/compress/zstd', 'github.com/xi2/xz', 'internal/godebug',
             'internal/stringslite', 'unique', 'internal/oserror', 'internal/poll', 'internal/testlog', 'io/ioutil/x']
ERRSEQ = itertools.count(1)


def model(*names):
    def deco(f):
        for n in names:
            MODELS[n] = f
        return f
    return deco


def install(I):
    I.models.update(MODELS)


NOSTOP = {'io.Copy', 'strconv.Atoi'}      # modelled only for some argument types; the SSA must stay available


def stop_list():
    out = [k for k in MODELS if isinstance(k, str) and k not in NOSTOP]
    out += ['pkg:' + p for p in STOP_PKGS]
    return out


def new_error(I, st, text='error'):
    """an opaque non-nil error value"""
    return Iface('*verif.opaqueError', Opaque('err', (next(ERRSEQ), text)))


@model(('*verif.opaqueError', 'Error'))
def _err_error(I, st, args):
    return mkstr(args[0].data[1])


@model(('*verif.opaqueError', 'Unwrap'))
def _err_unwrap(I, st, args):
    d = args[0].data
    return d[2] if len(d) > 2 else None


# ------------------------------------------------------------------ helpers
def match_at(s, p, sep):
    cs = []
    for j, c in enumerate(sep):
        a = s[p + j]
        sa, sc = isinstance(a, z3.ExprRef), isinstance(c, z3.ExprRef)
        if not sa and not sc:
            if a != c:
                return False
        else:
            cs.append(tobv(a, 8) == tobv(c, 8))
    return mk_and(cs)


def index_alts(s, sep, start=0):
    """[(cond, position or -1)] for the first occurrence of sep in s at or after start"""
    n, m = len(s), len(sep)
    alts = []
    pre = []
    for p in range(start, n - m + 1):
        c = match_at(s, p, sep)
        if c is False:
            continue
        alts.append((mk_and(pre + [c]), p))
        if c is True:
            return alts
        pre.append(Not(c))
    alts.append((mk_and(pre), -1))
    return alts


def last_index_alts(s, sep):
    n, m = len(s), len(sep)
    alts = []
    pre = []
    for p in range(n - m, -1, -1):
        c = match_at(s, p, sep)
        if c is False:
            continue
        alts.append((mk_and(pre + [c]), p))
        if c is True:
            return alts
        pre.append(Not(c))
    alts.append((mk_and(pre), -1))
    return alts


def as_alts(alts):
    if len(alts) == 1 and alts[0][0] is True and not callable(alts[0][1]):
        return alts[0][1]
    return ('alts', alts)


# ------------------------------------------------------------------ strings / bytes / bytealg
@model('strings.Index', 'internal/bytealg.IndexString', 'internal/stringslite.Index')
def _strings_index(I, st, args):
    s, sep = args
    return as_alts(index_alts(s, sep))


@model('strings.IndexByte', 'internal/bytealg.IndexByteString', 'internal/stringslite.IndexByte')
def _strings_indexbyte(I, st, args):
    s, c = args
    return as_alts(index_alts(s, (c,)))


@model('bytes.IndexByte', 'internal/bytealg.IndexByte')
def _bytes_indexbyte(I, st, args):
    b, c = args
    return as_alts(index_alts(I.slice_cells(st, b), (c,)))


@model('strings.LastIndex')
def _strings_lastindex(I, st, args):
    s, sep = args
    if len(sep) == 0:
        return len(s)
    return as_alts(last_index_alts(s, sep))


@model('strings.LastIndexByte', 'internal/bytealg.LastIndexByteString')
def _strings_lastindexbyte(I, st, args):
    s, c = args
    return as_alts(last_index_alts(s, (c,)))


@model('strings.Contains')
def _strings_contains(I, st, args):
    s, sep = args
    n, m = len(s), len(sep)
    return mk_or([match_at(s, p, sep) for p in range(0, n - m + 1)])


@model('strings.ContainsRune')
def _strings_containsrune(I, st, args):
    s, r = args
    if is_sym(r) or r >= 0x80:
        raise Unsupported('ContainsRune non-ascii')
    return mk_or([match_at(s, p, (r,)) for p in range(len(s))])


@model('strings.ContainsAny')
def _strings_containsany(I, st, args):
    s, chars = args
    if not concrete_str(chars) or any(c >= 0x80 for c in chars):
        raise Unsupported('ContainsAny')
    return mk_or([match_at(s, p, (c,)) for p in range(len(s)) for c in chars])


@model('strings.HasPrefix', 'internal/stringslite.HasPrefix')
def _strings_hasprefix(I, st, args):
    s, p = args
    if len(s) < len(p):
        return False
    return match_at(s, 0, p)


@model('strings.HasSuffix', 'internal/stringslite.HasSuffix')
def _strings_hassuffix(I, st, args):
    s, p = args
    if len(s) < len(p):
        return False
    return match_at(s, len(s) - len(p), p)


@model('strings.TrimPrefix', 'internal/stringslite.TrimPrefix')
def _strings_trimprefix(I, st, args):
    s, p = args
    if len(s) < len(p):
        return s
    c = match_at(s, 0, p)
    return as_alts([(c, Str(s[len(p):])), (mk_not(c), s)])


@model('strings.TrimSuffix', 'internal/stringslite.TrimSuffix')
def _strings_trimsuffix(I, st, args):
    s, p = args
    if len(s) < len(p):
        return s
    c = match_at(s, len(s) - len(p), p)
    return as_alts([(c, Str(s[:len(s) - len(p)])), (mk_not(c), s)])


@model('internal/bytealg.CountString', 'strings.Count')
def _count_string(I, st, args):
    s, c = args
    if type(c) is Str:
        if len(c) != 1:
            if concrete_str(s) and concrete_str(c):
                return bytes(s).count(bytes(c)) if len(c) else len(bytes(s).decode('utf-8', 'replace')) + 1
            raise Unsupported('strings.Count with long separator on symbolic input')
        c = c[0]
    cnt = 0
    for b in s:
        e = match_at((b,), 0, (c,))
        if e is True:
            cnt = cnt + 1 if not is_sym(cnt) else cnt + bvval(1, 64)
        elif e is not False:
            cnt = tobv(cnt, 64) + If(e, bvval(1, 64), bvval(0, 64))
    return cnt


@model('internal/bytealg.Count')
def _count_bytes(I, st, args):
    b, c = args
    return _count_string(I, st, [Str(I.slice_cells(st, b)), c])


@model('internal/bytealg.Equal', 'bytes.Equal')
def _bytes_equal(I, st, args):
    a, b = args
    return I.str_eq(Str(I.slice_cells(st, a)), Str(I.slice_cells(st, b)))


@model('internal/bytealg.MakeNoZero')
def _makenozero(I, st, args):
    n = args[0]
    if is_sym(n):
        raise Unsupported('MakeNoZero(symbolic)')
    return I.new_slice(st, 'uint8', (0,) * n)


def split_model(I, st, s, sep, n, keep=0):
    """strings.Split / SplitN / SplitAfter semantics (genSplit)"""
    if is_sym(n):
        raise Unsupported('SplitN with symbolic n')
    if n == 0:
        return None
    if len(sep) == 0:
        if not concrete_str(s):
            raise Unsupported('explode of symbolic string')
        chars = [Str(ch.encode('utf-8')) for ch in bytes(s).decode('utf-8', 'replace')]
        if n > 0 and len(chars) > n:
            chars = chars[:n - 1] + [Str(b''.join(bytes(c) for c in chars[n - 1:]))]
        return I.new_slice(st, 'string', chars)

    def rec(st_, start, parts):
        if n > 0 and len(parts) == n - 1:
            return I.new_slice(st_, 'string', parts + [Str(s[start:])])
        alts = []
        for c, p in index_alts(s, sep, start):
            if p < 0:
                alts.append((c, (lambda parts=parts: (lambda s2: I.new_slice(s2, 'string', parts + [Str(s[start:])])))()))
            else:
                alts.append((c, (lambda p=p: (lambda s2: rec(s2, p + len(sep), parts + [Str(s[start:p + keep])])))()))
        if len(alts) == 1 and alts[0][0] is True:
            return alts[0][1](st_)
        return ('alts', alts)
    return rec(st, 0, [])


@model('strings.Split')
def _strings_split(I, st, args):
    return split_model(I, st, args[0], args[1], -1)


@model('strings.SplitN')
def _strings_splitn(I, st, args):
    return split_model(I, st, args[0], args[1], args[2])


@model('strings.SplitAfter')
def _strings_splitafter(I, st, args):
    return split_model(I, st, args[0], args[1], -1, keep=len(args[1]))


@model('strings.Join')
def _strings_join(I, st, args):
    parts = I.slice_cells(st, args[0])
    sep = args[1]
    out = []
    for i, p in enumerate(parts):
        if i:
            out.extend(sep)
        out.extend(p)
    return Str(out)


@model('strings.Repeat')
def _strings_repeat(I, st, args):
    s, n = args
    if is_sym(n):
        raise Unsupported('Repeat symbolic')
    if n < 0:
        raise GoPanic('strings: negative Repeat count')
    return Str(tuple(s) * n)


@model('strings.Replace', 'strings.ReplaceAll')
def _strings_replace(I, st, args):
    if len(args) == 3:
        s, old, new = args
        n = -1
    else:
        s, old, new, n = args
    if is_sym(n):
        raise Unsupported('Replace with symbolic n')
    if len(old) == 0:
        if concrete_str(s) and concrete_str(new):
            return mkstr(bytes(s).decode('utf-8', 'surrogateescape').replace('', bytes(new).decode('utf-8', 'surrogateescape'), n).encode('utf-8', 'surrogateescape'))
        raise Unsupported('Replace with empty old on symbolic string')

    def rec(start, acc, cnt):
        if n >= 0 and cnt == n:
            return Str(acc + tuple(s[start:]))
        alts = []
        for c, p in index_alts(s, old, start):
            if p < 0:
                alts.append((c, Str(acc + tuple(s[start:]))))
            else:
                alts.append((c, (lambda p=p: (lambda st_: rec(p + len(old), acc + tuple(s[start:p]) + tuple(new), cnt + 1)))()))
        return as_alts(alts)
    return rec(0, (), 0)


def is_space_byte(b):
    """Go's unicode.IsSpace restricted to one byte value b < 0x80 (ASCII): \\t \\n \\v \\f \\r and space"""
    if not is_sym(b):
        return b in (9, 10, 11, 12, 13, 32)
    return Or(And(UGE(b, bvval(9, 8)), ULE(b, bvval(13, 8))), b == bvval(32, 8))


def ascii_only_cond(s):
    return mk_and([ULT(b, bvval(0x80, 8)) for b in s if is_sym(b)] + [b < 0x80 for b in s if not is_sym(b)])


def space_prefix_alts(I, s):
    """[(cond, k)]: the first k units of s are whitespace runes and unit k is not (UTF-8 aware)"""
    # iterative: at position p decode one rune; whitespace -> advance
    def rec(p):
        if p >= len(s):
            return p
        alts = []
        for c, r, w in I.decode_rune(s, p):
            sp = is_space_rune(r)
            alts.append((mk_and([c, sp]), (lambda p=p, w=w: (lambda st_: rec(p + w)))()))
            alts.append((mk_and([c, mk_not(sp)]), p))
        return as_alts(alts)
    return rec(0)


def is_space_rune(r):
    if not is_sym(r):
        return r in (9, 10, 11, 12, 13, 32, 0x85, 0xA0, 0x1680, 0x2028, 0x2029, 0x202f, 0x205f, 0x3000) or 0x2000 <= r <= 0x200a
    w = r.size()

    def eq(v):
        return r == bvval(v, w)
    cs = [And(UGE(r, bvval(9, w)), ULE(r, bvval(13, w))), eq(32)]
    if w > 7:
        cs += [eq(0x85), eq(0xA0)]
    if w > 8:
        cs += [eq(0x1680), And(UGE(r, bvval(0x2000, w)), ULE(r, bvval(0x200a, w))), eq(0x2028), eq(0x2029), eq(0x202f),
               eq(0x205f), eq(0x3000)]
    return Or(*cs)


@model('unicode.IsSpace')
def _unicode_isspace(I, st, args):
    return is_space_rune(args[0])


_UNI = None


def uni_ranges(name):
    global _UNI
    if _UNI is None:
        import json, os
        _UNI = json.load(open(os.path.join(os.path.dirname(os.path.abspath(__file__)), 'unitables.json')))
    return _UNI[name]


def uni_pred(name, r):
    """unicode.<name>(r) from the installed Go's own tables (engine/symgo/unitables.json, regenerated by setup.sh)"""
    rs = uni_ranges(name)
    if not is_sym(r):
        return any(lo <= r <= hi for lo, hi in rs)
    w = r.size()
    lim = (1 << w) - 1 if w < 32 else 0x10FFFF
    cs = []
    for lo, hi in rs:
        if lo > lim:
            break
        hi = min(hi, lim)
        cs.append(r == bvval(lo, w) if lo == hi else And(UGE(r, bvval(lo, w)), ULE(r, bvval(hi, w))))
    if not cs:
        return False
    return cs[0] if len(cs) == 1 else Or(*cs)


def _mk_uni(name):
    def m(I, st, args):
        return uni_pred(name, args[0])
    return m


for _n in ('IsDigit', 'IsLetter', 'IsUpper', 'IsLower', 'IsPunct', 'IsControl', 'IsNumber', 'IsPrint'):
    MODELS['unicode.' + _n] = _mk_uni(_n)


# utf8 -----------------------------------------------------------------
@model('unicode/utf8.DecodeRuneInString')
def _utf8_decode_str(I, st, args):
    s = args[0]
    if len(s) == 0:
        return Tup((0xFFFD, 0))
    return as_alts([(c, Tup((r, w))) for c, r, w in I.decode_rune(s, 0)])


@model('unicode/utf8.DecodeRune')
def _utf8_decode(I, st, args):
    return _utf8_decode_str(I, st, [Str(I.slice_cells(st, args[0])[:4])])


def decode_last(I, s):
    n = len(s)
    if n == 0:
        return [(True, 0xFFFD, 0)]
    if not is_sym(s[-1]) and s[-1] < 0x80:
        return [(True, s[-1], 1)]
    # try starts n-1 .. n-4: the rune must start there and extend exactly to the end
    alts = []
    none = []
    lim = max(0, n - 4)
    last_ascii = (tobv(s[-1], 8) < 0) if False else ULT(tobv(s[-1], 8), bvval(0x80, 8))
    alts.append((last_ascii, s[-1] if not is_sym(s[-1]) else ZeroExt(24, s[-1]), 1))
    pre = [Not(last_ascii)]
    # Go: walks back over continuation bytes to a start byte, decodes there, must end at n
    for start in range(n - 2, lim - 1, -1):
        k = n - start
        for c, r, w in I.decode_rune(s, start):
            if w != k:
                continue
            # every byte strictly between start and end is a continuation byte by validity; the start must be
            # the first non-continuation byte going backwards, which holds for a valid sequence
            alts.append((mk_and(pre + [c, mk_not(r == 0xFFFD) if not is_sym(r) else True]), r, k))
    covered = mk_or([c for c, _, _ in alts])
    alts.append((mk_not(covered), 0xFFFD, 1))
    return alts


@model('unicode/utf8.DecodeLastRuneInString')
def _utf8_decode_last_str(I, st, args):
    return as_alts([(c, Tup((r, w))) for c, r, w in decode_last(I, args[0])])


@model('unicode/utf8.DecodeLastRune')
def _utf8_decode_last(I, st, args):
    return as_alts([(c, Tup((r, w))) for c, r, w in decode_last(I, Str(I.slice_cells(st, args[0])))])


@model('unicode/utf8.RuneLen')
def _utf8_runelen(I, st, args):
    r = args[0]
    if is_sym(r):
        return _runelen_sym(I, r)
    if r < 0 or r > 0x10ffff or 0xd800 <= r <= 0xdfff:
        return -1
    return len(chr(r).encode('utf-8'))


def _runelen_sym(I, r):
    w = r.size()
    sur = And(UGE(r, bvval(0xD800, w)), ULE(r, bvval(0xDFFF, w)))
    return ('alts', [(r < 0, -1), (And(r >= 0, ULT(r, bvval(0x80, w))), 1), (And(UGE(r, bvval(0x80, w)), ULT(r, bvval(0x800, w))), 2),
                     (sur, -1), (And(UGE(r, bvval(0x800, w)), ULT(r, bvval(0x10000, w)), Not(sur)), 3),
                     (And(UGE(r, bvval(0x10000, w)), ULE(r, bvval(0x10FFFF, w))), 4), (UGT(r, bvval(0x10FFFF, w)), -1)])


@model('unicode/utf8.EncodeRune')
def _utf8_encoderune(I, st, args):
    p, r = args
    alts = []
    for c, s in I.encode_rune(r, (32, True)):
        def f(st_, s=s):
            if p is None or p.len < len(s):
                raise GoPanic('index out of range in EncodeRune')
            I.slice_store(st_, p, 0, tuple(s))
            return len(s)
        alts.append((c, f))
    if len(alts) == 1:
        return alts[0][1](st)
    return ('alts', alts)


@model('unicode/utf8.AppendRune')
def _utf8_appendrune(I, st, args):
    p, r = args
    alts = []
    for c, s in I.encode_rune(r, (32, True)):
        def f(st_, s=s):
            cells = I.slice_cells(st_, p) + tuple(s)
            return I.new_slice(st_, 'uint8', cells)
        alts.append((c, f))
    if len(alts) == 1:
        return alts[0][1](st)
    return ('alts', alts)


@model('unicode/utf8.ValidString')
def _utf8_validstring(I, st, args):
    s = args[0]
    if concrete_str(s):
        try:
            bytes(s).decode('utf-8')
            return True
        except UnicodeDecodeError:
            return False
    raise Unsupported('utf8.ValidString on symbolic input')


@model('unicode/utf8.RuneCountInString')
def _utf8_runecount(I, st, args):
    s = args[0]
    if concrete_str(s):
        return len(bytes(s).decode('utf-8', 'replace'))

    def rec(p, n):
        if p >= len(s):
            return n
        return as_alts([(c, (lambda w=w: (lambda st_: rec(p + w, n + 1)))()) for c, r, w in I.decode_rune(s, p)])
    return rec(0, 0)


# strings.Builder (uses unsafe) ------------------------------------------------------------
def _builder_buf(I, st, b):
    v = I.load(st, b)
    return v[1]


def _builder_set(I, st, b, cells):
    v = I.load(st, b)
    I.store(st, b, Struct((b, I.new_slice(st, 'uint8', cells))))


@model('(*strings.Builder).WriteString')
def _builder_writestring(I, st, args):
    b, s = args
    _builder_set(I, st, b, I.slice_cells(st, _builder_buf(I, st, b)) + tuple(s))
    return Tup((len(s), None))


@model('(*strings.Builder).Write')
def _builder_write(I, st, args):
    b, p = args
    cells = I.slice_cells(st, p)
    _builder_set(I, st, b, I.slice_cells(st, _builder_buf(I, st, b)) + tuple(cells))
    return Tup((len(cells), None))


@model('(*strings.Builder).WriteByte')
def _builder_writebyte(I, st, args):
    b, c = args
    _builder_set(I, st, b, I.slice_cells(st, _builder_buf(I, st, b)) + (c,))
    return None


@model('(*strings.Builder).WriteRune')
def _builder_writerune(I, st, args):
    b, r = args
    alts = []
    for c, s in I.encode_rune(r, (32, True)):
        def f(st_, s=s):
            _builder_set(I, st_, b, I.slice_cells(st_, _builder_buf(I, st_, b)) + tuple(s))
            return Tup((len(s), None))
        alts.append((c, f))
    return as_alts(alts) if len(alts) > 1 else alts[0][1](st)


@model('(*strings.Builder).String')
def _builder_string(I, st, args):
    return Str(I.slice_cells(st, _builder_buf(I, st, args[0])))


@model('(*strings.Builder).Len')
def _builder_len(I, st, args):
    return len(I.slice_cells(st, _builder_buf(I, st, args[0])))


@model('(*strings.Builder).Grow', '(*strings.Builder).copyCheck', '(*strings.Builder).grow')
def _builder_grow(I, st, args):
    return None


@model('(*strings.Builder).Reset')
def _builder_reset(I, st, args):
    _builder_set(I, st, args[0], ())
    return None


@model('internal/stringslite.Clone', 'strings.Clone', 'strconv.cloneString')
def _clone(I, st, args):
    return args[0]


# math/bits ------------------------------------------------------------
@model('math/bits.Len', 'math/bits.Len64')
def _bits_len(I, st, args):
    x = args[0]
    if is_sym(x):
        raise Unsupported('bits.Len symbolic')
    return (x & ((1 << 64) - 1)).bit_length()


@model('math/bits.Len32')
def _bits_len32(I, st, args):
    x = args[0]
    if is_sym(x):
        raise Unsupported('bits.Len32 symbolic')
    return (x & ((1 << 32) - 1)).bit_length()


@model('math/bits.TrailingZeros', 'math/bits.TrailingZeros64')
def _bits_tz(I, st, args):
    x = args[0]
    if is_sym(x):
        raise Unsupported('bits.TrailingZeros symbolic')
    if x == 0:
        return 64
    return (x & -x).bit_length() - 1


# fmt ------------------------------------------------------------------
def fmt_value(I, st, v, verb):
    """format one operand (an interface value) for %s/%v/%d/%q/%c; returns list of (state, Str)"""
    if v is None:
        return [(st, mkstr('<nil>' if verb != 's' else '%!s(<nil>)'))]
    t, x = v.t, v.v
    P = I.prog
    if verb == 'c':
        ii = P.intinfo(t) if t in P.types else None
        alts = I.encode_rune(x, ii or (32, True))
        outs = []
        for st2, s in I.feasible_alts(st, alts):
            outs.append((st2, s))
        return outs
    if verb in ('s', 'v', 'q', 'w'):
        for meth in ('Error', 'String'):
            if t in P.types or True:
                fn = P.method(t, meth) if t in P.methods else None
                key = (t, meth)
                if fn is not None or key in I.models:
                    outs = I.invoke(v, meth, [], st)
                    res = []
                    for o in outs:
                        if o.kind == 'ret':
                            res.append((o.st, o.val))
                        else:
                            res.append((o.st, mkstr('%!v(PANIC)')))
                    return res
    if t in P.types:
        if P.is_string(t) and verb == 'x':
            return [(st, Str(hex_encode(tuple(x))))]
        if P.is_string(t):
            if verb == 'q':
                return [(st, Str((34,) + tuple(x) + (34,)))]
            return [(st, x)]
        ii = P.intinfo(t)
        if ii:
            return [(st2, s) for st2, s in itoa_alts(I, st, x, ii)]
        if P.is_bool(t):
            if is_sym(x):
                return [(s2, p) for s2, p in I.feasible_alts(st, [(x, mkstr('true')), (Not(x), mkstr('false'))])]
            return [(st, mkstr('true' if x else 'false'))]
        k = P.kind(t)
        if k == 'slice' and P.intinfo(P.elem(t)) == (8, False) and verb == 's':
            return [(st, Str(I.slice_cells(st, x)))]
        if k == 'slice' and P.intinfo(P.elem(t)) == (8, False) and verb == 'x':
            return [(st, Str(hex_encode(I.slice_cells(st, x))))]
    return [(st, mkstr('?'))]


def itoa_alts(I, st, x, ii):
    """decimal rendering of integer x -> [(state, Str)]"""
    w, signed = ii
    if not is_sym(x):
        return [(st, mkstr(str(x)))]
    outs = []
    alts = []
    X = x
    if w < 64:
        X = SignExt(64 - w, x) if signed else ZeroExt(64 - w, x)
    maxd = {8: 3, 16: 5, 32: 10, 64: 20}[w]
    negs = [False, True] if signed else [False]
    for neg in negs:
        mag = -X if neg else X
        sgn = (X < 0) if neg else ((X >= 0) if signed else True)
        for d in range(1, maxd + 1):
            lo = 10 ** (d - 1) if d > 1 else 0
            hi = 10 ** d - 1
            conds = [sgn, UGE(mag, bvval(lo, 64))]
            if hi < (1 << 64):
                conds.append(ULE(mag, bvval(hi, 64)))
            alts.append((mk_and(conds), (neg, d, mag)))
    for st2, (neg, d, mag) in I.feasible_alts(st, alts):
        # the decimal digits are fresh variables tied to the value by mag == sum(d_k * 10^k): equivalent to
        # dividing by powers of ten (the digits are unique) but linear, which the solver handles
        seq = next(ERRSEQ)
        digs = [BitVec('itoa%d_%d' % (seq, k), 8) for k in range(d)]
        cs = []
        val = None
        for k, dg in enumerate(digs):
            lo = 49 if (k == 0 and d > 1) else 48
            cs.append(And(UGE(dg, bvval(lo, 8)), ULE(dg, bvval(57, 8))))
            dv = ZeroExt(56, dg - bvval(48, 8))
            val = dv if val is None else val * bvval(10, 64) + dv
        cs.append(mag == val)
        st2.guard = st2.guard + tuple(cs)
        st2.mvars = st2.mvars | frozenset(dg.decl().name() for dg in digs)
        st2.model = None
        outs.append((st2, Str(((45,) if neg else ()) + tuple(digs))))
    return outs


def sprintf(I, st, fmt, args):
    """returns list of (state, Str)"""
    if not concrete_str(fmt):
        raise Unsupported('symbolic format string')
    f = bytes(fmt)
    states = [(st, ())]
    i = 0
    ai = 0
    n = len(f)
    while i < n:
        c = f[i]
        if c != 37:
            j = f.find(b'%', i)
            if j < 0:
                j = n
            lit = tuple(f[i:j])
            states = [(s, acc + lit) for s, acc in states]
            i = j
            continue
        i += 1
        if i >= n:
            states = [(s, acc + tuple(b'%!(NOVERB)')) for s, acc in states]
            break
        fs_ = i
        while i < n and f[i] in b'+-# 0123456789.':
            i += 1
        flags = f[fs_:i].decode()
        verb = chr(f[i])
        i += 1
        if verb == '%':
            states = [(s, acc + (37,)) for s, acc in states]
            continue
        if ai >= len(args):
            states = [(s, acc + tuple(('%!' + verb + '(MISSING)').encode())) for s, acc in states]
            continue
        a = args[ai]
        ai += 1
        left = '-' in flags
        zero = flags.startswith('0') or ('0' in flags and flags.lstrip('+-# ').startswith('0'))
        wtxt = flags.lstrip('+-# 0').split('.')[0]
        width = int(wtxt) if wtxt.isdigit() else 0
        nxt = []
        for s, acc in states:
            for s2, txt in fmt_value(I, s, a, verb):
                t = tuple(txt)
                if width > len(t):
                    pad = ((48,) if (zero and not left) else (32,)) * (width - len(t))
                    t = t + pad if left else pad + t
                nxt.append((s2, acc + t))
        states = nxt
    return [(s, Str(acc)) for s, acc in states]


@model('fmt.Sprintf')
def _fmt_sprintf(I, st, args):
    fmt, a = args
    outs = sprintf(I, st, fmt, I.slice_cells(st, a))
    return ('outcomes', [Outcome_(s, 'ret', v) for s, v in outs])


@model('fmt.Sprint', 'fmt.Sprintln')
def _fmt_sprint(I, st, args):
    a = I.slice_cells(st, args[0])
    fmt = mkstr(' '.join(['%v'] * len(a)))
    outs = sprintf(I, st, fmt, a)
    return ('outcomes', [Outcome_(s, 'ret', v) for s, v in outs])


@model('fmt.Errorf')
def _fmt_errorf(I, st, args):
    fmt, a = args
    wrapped = None
    if concrete_str(fmt) and b'%w' in bytes(fmt):
        # which operand does %w take?  count the verbs before it
        f = bytes(fmt)
        idx, i = 0, 0
        while i < len(f):
            if f[i] == 37:
                j = i + 1
                while j < len(f) and f[j] in b'+-# 0123456789.':
                    j += 1
                if j < len(f) and f[j] == 37:
                    i = j + 1
                    continue
                if j < len(f) and f[j] == ord('w'):
                    ops = I.slice_cells(st, a)
                    if idx < len(ops):
                        wrapped = ops[idx]
                    break
                idx += 1
                i = j + 1
            else:
                i += 1
    e = new_error(I, st, 'fmt.Errorf')
    if wrapped is not None:
        e = Iface(e.t, Opaque('err', e.v.data + (wrapped,)))
    return e


@model('fmt.Printf', 'fmt.Println', 'fmt.Print', 'fmt.Fprintf', 'fmt.Fprintln', 'fmt.Fprint')
def _fmt_print(I, st, args):
    return Tup((0, None))


@model('log.Printf', 'log.Println', 'log.Print')
def _log_print(I, st, args):
    return None


@model('log.Fatalf', 'log.Fatal', 'log.Fatalln', 'os.Exit')
def _log_fatal(I, st, args):
    return ('outcomes', [Outcome_(st, 'exit', 'process exit (log.Fatal / os.Exit)')])


def Outcome_(st, kind, val):
    from .interp import Outcome
    return Outcome(st, kind, val)


# errors ------------------------------------------------------------------
@model('errors.Is')
def _errors_is(I, st, args):
    e, target = args
    for _ in range(16):
        if e is None:
            return target is None
        if same(e, target):
            return True
        if type(e) is Iface and e.t == '*verif.opaqueError':
            d = e.v.data
            e = d[2] if len(d) > 2 else None
            continue
        return False
    return False


@model('errors.Unwrap')
def _errors_unwrap(I, st, args):
    e = args[0]
    if type(e) is Iface and e.t == '*verif.opaqueError':
        d = e.v.data
        return d[2] if len(d) > 2 else None
    return None


# sync (single-threaded execution: locks are no-ops) ----------------------------------------
@model('(*sync.Mutex).Lock', '(*sync.Mutex).Unlock', '(*sync.RWMutex).Lock', '(*sync.RWMutex).Unlock',
       '(*sync.RWMutex).RLock', '(*sync.RWMutex).RUnlock', '(*sync.Once).Do_')
def _sync_noop(I, st, args):
    return None


# encoding/json (contract for strings only) -------------------------------------------------
@model('encoding/json.Marshal')
def _json_marshal(I, st, args):
    v = args[0]
    if v is None or not (v.t in I.prog.types and I.prog.is_string(v.t)):
        raise Unsupported('json.Marshal of a non-string value')
    s = v.v
    plain = []
    for b in s:
        if is_sym(b):
            plain.append(And(UGE(b, bvval(0x20, 8)), ULE(b, bvval(0x7e, 8)), b != bvval(0x22, 8), b != bvval(0x5c, 8),
                             b != bvval(0x3c, 8), b != bvval(0x3e, 8), b != bvval(0x26, 8)))
        elif not (0x20 <= b <= 0x7e and b not in (0x22, 0x5c, 0x3c, 0x3e, 0x26)):
            raise Unsupported('json.Marshal of a string that needs escaping')
    c = mk_and(plain)

    def ok(st_):
        return Tup((I.new_slice(st_, 'uint8', (0x22,) + tuple(s) + (0x22,)), None))

    def bad(st_):
        raise Unsupported('json.Marshal of a symbolic string that may need escaping')
    if c is True:
        return ok(st)
    return ('alts', [(c, ok), (mk_not(c), bad)])


# strconv formatting (division by constants on symbolic words is replaced by a digit-count case split) ------------
@model('strconv.Itoa')
def _strconv_itoa(I, st, args):
    outs = itoa_alts(I, st, args[0], (64, True))
    return ('outcomes', [Outcome_(s, 'ret', v) for s, v in outs])


@model('strconv.FormatInt')
def _strconv_formatint(I, st, args):
    x, base = args
    if is_sym(base) or base != 10:
        raise Unsupported('FormatInt with base != 10')
    outs = itoa_alts(I, st, x, (64, True))
    return ('outcomes', [Outcome_(s, 'ret', v) for s, v in outs])


@model('strconv.FormatUint')
def _strconv_formatuint(I, st, args):
    x, base = args
    if is_sym(base) or base != 10:
        raise Unsupported('FormatUint with base != 10')
    outs = itoa_alts(I, st, x, (64, False))
    return ('outcomes', [Outcome_(s, 'ret', v) for s, v in outs])


# strconv.Atoi on a string of at most 18 bytes (the function's own fast path: no overflow is possible): one case
# split - well-formed or not - instead of a symbolic branch per byte.  Longer strings run the real code.
# Checked against the SSA of strconv.ParseInt by tools/selftest.py.
@model('strconv.Atoi')
def _strconv_atoi(I, st, args):
    s = args[0]
    n = len(s)
    if n >= 19:
        from .interp import FALLBACK
        return FALLBACK
    if n == 0:
        return Tup((0, new_error(I, st, 'strconv.Atoi: parsing "": invalid syntax')))

    def digits_ok(ds):
        cs = []
        for b in ds:
            if is_sym(b):
                cs.append(And(UGE(b, bvval(0x30, 8)), ULE(b, bvval(0x39, 8))))
            elif not (0x30 <= b <= 0x39):
                return False
        return mk_and(cs)

    def value(ds, neg):
        if not any(is_sym(b) for b in ds):
            v = int(bytes(ds))
            return -v if neg else v
        acc = bvval(0, 64)
        for b in ds:
            d = z3.ZeroExt(56, tobv(b, 8) - bvval(0x30, 8)) if is_sym(b) else bvval(b - 0x30, 64)
            acc = acc * bvval(10, 64) + d
        return -acc if neg else acc

    def bad(st_):
        return Tup((0, new_error(I, st_, 'strconv.Atoi: invalid syntax')))
    alts = []
    first = s[0]
    # no sign
    c_plain = digits_ok(s)
    if c_plain is not False:
        alts.append((c_plain, Tup((value(s, False), None))))
    rest = [c_plain]
    if n > 1:
        for sign, neg in ((0x2b, False), (0x2d, True)):
            if is_sym(first):
                c0 = first == bvval(sign, 8)
            else:
                c0 = first == sign
            if c0 is False:
                continue
            c = mk_and([c0, digits_ok(s[1:])])
            if c is not False:
                alts.append((c, Tup((value(s[1:], neg), None))))
                rest.append(c)
    c_bad = mk_and([mk_not(c) for c in rest])
    if c_bad is not False:
        alts.append((c_bad, bad))
    if len(alts) == 1:
        p = alts[0][1]
        return p(st) if callable(p) else p
    return ('alts', alts)


from . import reflectmodel  # noqa: E402  (registers the reflect models)
from . import osmodel  # noqa: E402  (registers the filesystem model)
from . import pgpmodel  # noqa: E402  (idealised OpenPGP)
from . import archmodel  # noqa: E402  (abstract codecs and tar)


# time (uninterpreted) ---------------------------------------------------------------------
# time.Parse(layout, text) succeeds iff TimeOK(layout, text) and then yields the instant TimeW/TimeE(layout, text):
# uninterpreted functions of the two texts, so equal texts give equal times and nothing else is known.
TIME_MAXLEN = 48
_TIMEF = {}


def _time_funcs():
    if not _TIMEF:
        S = z3.BitVecSort(8 * TIME_MAXLEN)
        L = z3.BitVecSort(8)
        _TIMEF['ok'] = z3.Function('TimeOK', S, L, S, L, z3.BoolSort())
        _TIMEF['w'] = z3.Function('TimeW', S, L, S, L, z3.BitVecSort(64))
        _TIMEF['e'] = z3.Function('TimeE', S, L, S, L, z3.BitVecSort(64))
        _TIMEF['z'] = z3.Function('TimeZoneOffset', z3.BitVecSort(64), z3.BitVecSort(64), z3.BitVecSort(64))
    return _TIMEF


def _enc_text(s):
    if len(s) > TIME_MAXLEN:
        raise Unsupported('time text longer than %d bytes' % TIME_MAXLEN)
    bs = [tobv(b, 8) for b in s] + [bvval(0, 8)] * (TIME_MAXLEN - len(s))
    return z3.Concat(*bs), bvval(len(s), 8)


def time_ok_term(layout, text):
    F = _time_funcs()
    a, la = _enc_text(mkstr(layout) if isinstance(layout, (bytes, str)) else layout)
    b, lb = _enc_text(mkstr(text) if isinstance(text, (bytes, str)) else text)
    return F['ok'](a, la, b, lb)


@model('time.Parse')
def _time_parse(I, st, args):
    layout, text = args
    F = _time_funcs()
    tt = 'time.Time'

    def bad(st_):
        return Tup((I.zero(tt), new_error(I, st_, 'time.Parse')))
    if len(text) > TIME_MAXLEN or len(layout) > TIME_MAXLEN:
        return bad(st)      # longer than any value of the layouts in use: a parse error
    if concrete_str(layout) and bytes(layout) == b'Mon, 02 Jan 2006 15:04:05 -0700' and len(text) < 31:
        return bad(st)      # every element of this layout has a fixed minimum width: shorter text cannot match
    a, la = _enc_text(layout)
    b, lb = _enc_text(text)
    ok = F['ok'](a, la, b, lb)

    def good(st_):
        return Tup((Struct((F['w'](a, la, b, lb), F['e'](a, la, b, lb), None)), None))
    return ('alts', [(ok, good), (Not(ok), bad)])


@model('(time.Time).Equal')
def _time_equal(I, st, args):
    a, b = args
    return mk_and([I.value_eq(a[0], b[0]), I.value_eq(a[1], b[1])])


@model('(time.Time).IsZero')
def _time_iszero(I, st, args):
    a = args[0]
    return mk_and([I.value_eq(a[0], 0), I.value_eq(a[1], 0)])


@model('(time.Time).Zone')
def _time_zone(I, st, args):
    a = args[0]
    F = _time_funcs()
    loc = a[2]
    if type(loc) is Opaque and loc.kind == 'fixedzone':
        return Tup((loc.data[0], loc.data[1]))
    return Tup((Str(), F['z'](tobv(a[0], 64), tobv(a[1], 64))))


@model('time.FixedZone')
def _time_fixedzone(I, st, args):
    return Opaque('fixedzone', (args[0], args[1]))


@model('(time.Time).In')
def _time_in(I, st, args):
    a, loc = args
    if loc is None:
        raise GoPanic('time: missing Location in call to Time.In')
    return Struct((a[0], a[1], loc))


@model('(time.Time).UTC')
def _time_utc(I, st, args):
    a = args[0]
    return Struct((a[0], a[1], Opaque('fixedzone', (mkstr('UTC'), 0))))


def time_zone_term(layout, text):
    """the zone offset term of the instant time.Parse(layout, text) yields"""
    F = _time_funcs()
    a, la = _enc_text(mkstr(layout))
    b, lb = _enc_text(mkstr(text))
    return F['z'](F['w'](a, la, b, lb), F['e'](a, la, b, lb))


# crypto digests (uninterpreted) ------------------------------------------------------------------
# xxx.New() returns an abstract hash.Hash that records every byte written, in order; Sum appends
# H_alg(bytes written): an uninterpreted function per algorithm.  Which bytes reach which primitive,
# in which order, is therefore exact; the digest functions themselves are trusted (stdlib).
HASH_MAXLEN = 16
DIGEST_LEN = {'md5': 16, 'sha1': 20, 'sha256': 32, 'sha512': 64}
_HASHF = {}
HASHER_T = '*verif.hasher'


def hash_func(alg, width=HASH_MAXLEN):
    k = (alg, width)
    if k not in _HASHF:
        _HASHF[k] = z3.Function('H_%s%s' % (alg, '' if width == HASH_MAXLEN else '_%d' % width), z3.BitVecSort(8 * width), z3.BitVecSort(16), z3.BitVecSort(8 * DIGEST_LEN[alg]))
    return _HASHF[k]


def digest_bytes(alg, content):
    # short inputs (the checksum obligations) share one function; long ones (whole documents used as cache keys and
    # the like) use a wider one - digests of a short and of a long input are unrelated terms
    width = HASH_MAXLEN
    while width < len(content):
        width *= 8
    if width > 8192:
        raise Unsupported('more than 8192 bytes hashed')
    bs = [tobv(b, 8) for b in content] + [bvval(0, 8)] * (width - len(content))
    d = hash_func(alg, width)(z3.Concat(*bs) if len(bs) > 1 else bs[0], bvval(len(content), 16))
    n = DIGEST_LEN[alg]
    return tuple(z3.simplify(Extract(8 * (n - i) - 1, 8 * (n - i - 1), d)) for i in range(n))


def _mk_hasher(alg):
    def m(I, st, args):
        o = I.alloc(st, None, ('hasher', alg, ()))
        return Iface(HASHER_T, Ptr(o, ()))
    return m


for _alg, _pkg in (('md5', 'crypto/md5'), ('sha1', 'crypto/sha1'), ('sha256', 'crypto/sha256'), ('sha512', 'crypto/sha512')):
    MODELS[_pkg + '.New'] = _mk_hasher(_alg)


@model((HASHER_T, 'Write'))
def _hasher_write(I, st, args):
    h, p = args
    rec = st.heap[h.obj]
    cells = I.slice_cells(st, p)
    st.heap[h.obj] = ('hasher', rec[1], rec[2] + tuple(cells))
    return Tup((len(cells), None))


@model((HASHER_T, 'Sum'))
def _hasher_sum(I, st, args):
    h, b = args
    rec = st.heap[h.obj]
    return I.new_slice(st, 'uint8', I.slice_cells(st, b) + digest_bytes(rec[1], rec[2]))


@model((HASHER_T, 'Reset'))
def _hasher_reset(I, st, args):
    h = args[0]
    rec = st.heap[h.obj]
    st.heap[h.obj] = ('hasher', rec[1], ())
    return None


@model((HASHER_T, 'Size'))
def _hasher_size(I, st, args):
    return DIGEST_LEN[st.heap[args[0].obj][1]]


@model((HASHER_T, 'BlockSize'))
def _hasher_blocksize(I, st, args):
    return 128 if st.heap[args[0].obj][1] == 'sha512' else 64


# encoding/hex -------------------------------------------------------------------------------------
def hex_char(n4):
    """hex digit of a 4-bit value held in an 8-bit term"""
    if not is_sym(n4):
        return b'0123456789abcdef'[n4]
    return If(ULT(n4, bvval(10, 8)), n4 + bvval(48, 8), n4 + bvval(87, 8))


def hex_encode(cells):
    out = []
    for b in cells:
        if is_sym(b):
            out += [z3.simplify(hex_char(LShR(b, 4))), z3.simplify(hex_char(b & bvval(15, 8)))]
        else:
            out += [hex_char(b >> 4), hex_char(b & 15)]
    return tuple(out)


def hex_val(c):
    """(validity condition, value) of one hex character"""
    if not is_sym(c):
        s = bytes([c])
        if s in b'0123456789':
            return True, c - 48
        if s in b'abcdef':
            return True, c - 87
        if s in b'ABCDEF':
            return True, c - 55
        return False, 0
    dig = And(UGE(c, bvval(48, 8)), ULE(c, bvval(57, 8)))
    low = And(UGE(c, bvval(97, 8)), ULE(c, bvval(102, 8)))
    up = And(UGE(c, bvval(65, 8)), ULE(c, bvval(70, 8)))
    return Or(dig, low, up), If(dig, c - bvval(48, 8), If(low, c - bvval(87, 8), c - bvval(55, 8)))


@model('encoding/hex.EncodeToString')
def _hex_encodetostring(I, st, args):
    return Str(hex_encode(I.slice_cells(st, args[0])))


@model('encoding/hex.DecodeString')
def _hex_decodestring(I, st, args):
    s = args[0]
    conds, vals = [], []
    for c in s:
        ok, v = hex_val(c)
        conds.append(ok)
        vals.append(v)
    n = len(s) // 2
    valid = mk_and(conds[:2 * n])

    def good(st_):
        out = []
        for i in range(n):
            hi, lo = vals[2 * i], vals[2 * i + 1]
            if is_sym(hi) or is_sym(lo):
                out.append(z3.simplify((tobv(hi, 8) << 4) | tobv(lo, 8)))
            else:
                out.append((hi << 4) | lo)
        if len(s) % 2:
            return Tup((I.new_slice(st_, 'uint8', out), new_error(I, st_, 'encoding/hex: odd length hex string')))
        return Tup((I.new_slice(st_, 'uint8', out), None))

    def bad(st_):
        return Tup((None, new_error(I, st_, 'encoding/hex: invalid byte')))
    if valid is True:
        return good(st)
    return ('alts', [(valid, good), (mk_not(valid), bad)])


@model('strings.Fields')
def _strings_fields(I, st, args):
    s = args[0]

    def rec(st_, pos, start, parts):
        # start: index where the current field began, or None between fields
        while pos < len(s):
            b = s[pos]
            if not is_sym(b) and b < 0x80:
                sp = b in (9, 10, 11, 12, 13, 32)
                if sp and start is not None:
                    parts = parts + [Str(s[start:pos])]
                    start = None
                elif not sp and start is None:
                    start = pos
                pos += 1
                continue
            alts = []
            for c, r, w in I.decode_rune(s, pos):
                spc = is_space_rune(r)

                def k_space(s2, pos=pos, w=w, start=start, parts=parts):
                    p2 = parts + [Str(s[start:pos])] if start is not None else parts
                    return rec(s2, pos + w, None, p2)

                def k_text(s2, pos=pos, w=w, start=start, parts=parts):
                    return rec(s2, pos + w, start if start is not None else pos, parts)
                alts.append((mk_and([c, spc]), k_space))
                alts.append((mk_and([c, mk_not(spc)]), k_text))
            return ('alts', alts)
        if start is not None:
            parts = parts + [Str(s[start:])]
        return I.new_slice(st_, 'string', parts) if parts else None
    return rec(st, 0, None, [])


@model('bytes.Replace', 'bytes.ReplaceAll')
def _bytes_replace(I, st, args):
    cells = [Str(I.slice_cells(st, a)) for a in args[:3]]
    r = _strings_replace(I, st, cells + list(args[3:]))

    def wrap(v):
        if type(v) is tuple and len(v) == 2 and v[0] == 'alts':
            return ('alts', [(c, (lambda p: (lambda s_: wrap(p(s_) if callable(p) else p)))(p)) for c, p in v[1]])
        return None     # placeholder, replaced below
    # expand through the interpreter: every resolved string becomes a fresh byte slice
    outs = []
    from .interp import Outcome
    for o in I.resolve(st, r):
        if o.kind == 'ret':
            outs.append(Outcome(o.st, 'ret', I.new_slice(o.st, 'uint8', tuple(o.val))))
        else:
            outs.append(o)
    return ('outcomes', outs)


# unicode case mappings (tables generated from the installed Go, see tools/unitables) ------------------------------
def uni_map(name, r):
    """unicode.<name>(r) for SimpleFold / ToLower / ToUpper: runs [lo, hi, stride, delta]; other runes map to themselves"""
    runs = uni_ranges('map_' + name)
    if not is_sym(r):
        for lo, hi, stride, d in runs:
            if lo <= r <= hi and (r - lo) % stride == 0:
                return r + d
        return r
    w = r.size()
    lim = (1 << w) - 1 if w < 32 else 0x10FFFF
    out = r
    for lo, hi, stride, d in reversed(runs):
        if lo > lim:
            continue
        hi = min(hi, lim)
        c = (r == bvval(lo, w)) if lo == hi else And(UGE(r, bvval(lo, w)), ULE(r, bvval(hi, w)))
        if stride == 2 and lo != hi:
            c = And(c, ((r - bvval(lo, w)) & bvval(1, w)) == bvval(0, w))
        out = If(c, r + bvval(d & ((1 << w) - 1), w), out)
    return out


def _mk_unimap(name):
    def m(I, st, args):
        return uni_map(name, args[0])
    return m


for _n in ('SimpleFold', 'ToLower', 'ToUpper'):
    MODELS['unicode.' + _n] = _mk_unimap(_n)


# strings.Cut / CutPrefix / CutSuffix (Go 1.23 routes them through internal/stringslite) --------------------------
@model('strings.Cut', 'internal/stringslite.Cut')
def _strings_cut(I, st, args):
    s, sep = args
    alts = []
    for c, i in index_alts(s, sep):
        if c is False:
            continue
        if isinstance(i, int) and i < 0:
            alts.append((c, Tup((s, Str(), False))))
        else:
            alts.append((c, Tup((Str(s[:i]), Str(s[i + len(sep):]), True))))
    return as_alts(alts)


@model('strings.CutPrefix', 'internal/stringslite.CutPrefix')
def _strings_cutprefix(I, st, args):
    s, p = args
    if len(s) < len(p):
        return Tup((s, False))
    c = match_at(s, 0, p)
    return as_alts([(c, Tup((Str(s[len(p):]), True))), (mk_not(c), Tup((s, False)))])


@model('strings.CutSuffix', 'internal/stringslite.CutSuffix')
def _strings_cutsuffix(I, st, args):
    s, p = args
    if len(s) < len(p):
        return Tup((s, False))
    c = match_at(s, len(s) - len(p), p)
    return as_alts([(c, Tup((Str(s[:len(s) - len(p)]), True))), (mk_not(c), Tup((s, False)))])


# sync.Map: an association list per map object, kept beside the heap (single-threaded exploration; the stores
# count as writes to the package-level variable that holds the map, for the non-interference obligations) --------
def _syncmap_key(p):
    return (p.obj, p.path)


def _syncmap_get(st, p):
    return st.aux.get('syncmap', {}).get(_syncmap_key(p), MapVal())


def _syncmap_set(I, st, p, ents):
    d = dict(st.aux.get('syncmap', {}))
    d[_syncmap_key(p)] = MapVal(ents)
    st.aux['syncmap'] = d
    if getattr(I, 'track_globals', False) and isinstance(p.obj, str):
        I.global_writes.add(p.obj)


@model('(*sync.Map).Load')
def _syncmap_load(I, st, args):
    m, k = args
    ents = _syncmap_get(st, m)
    alts = []
    for c, i in I.map_find(st, ents, k):
        alts.append((c, Tup((None, False)) if i is None else Tup((ents[i][1], True))))
    return as_alts(alts)


@model('(*sync.Map).Store')
def _syncmap_store(I, st, args):
    m, k, v = args
    ents = _syncmap_get(st, m)
    alts = []
    for c, i in I.map_find(st, ents, k):
        def upd(s_, i=i):
            e = _syncmap_get(s_, m)
            _syncmap_set(I, s_, m, (e + ((k, v),)) if i is None else (e[:i] + ((e[i][0], v),) + e[i + 1:]))
            return None
        alts.append((c, upd))
    if len(alts) == 1 and alts[0][0] is True:
        return alts[0][1](st)
    return ('alts', alts)


@model('(*sync.Map).LoadOrStore')
def _syncmap_loadorstore(I, st, args):
    m, k, v = args
    ents = _syncmap_get(st, m)
    alts = []
    for c, i in I.map_find(st, ents, k):
        if i is None:
            def ins(s_):
                _syncmap_set(I, s_, m, _syncmap_get(s_, m) + ((k, v),))
                return Tup((v, False))
            alts.append((c, ins))
        else:
            alts.append((c, Tup((ents[i][1], True))))
    if len(alts) == 1 and alts[0][0] is True:
        p = alts[0][1]
        return p(st) if callable(p) else p
    return ('alts', alts)


@model('(*sync.Map).Delete')
def _syncmap_delete(I, st, args):
    m, k = args
    ents = _syncmap_get(st, m)
    alts = []
    for c, i in I.map_find(st, ents, k):
        def rm(s_, i=i):
            if i is not None:
                e = _syncmap_get(s_, m)
                _syncmap_set(I, s_, m, e[:i] + e[i + 1:])
            return None
        alts.append((c, rm))
    if len(alts) == 1 and alts[0][0] is True:
        return alts[0][1](st)
    return ('alts', alts)


# one-shot digests -------------------------------------------------------------------------------------------------
def _mk_sum(alg):
    def m(I, st, args):
        cells = I.slice_cells(st, args[0])
        return Arr(digest_bytes(alg, cells))
    return m


for _fn, _alg in (('crypto/md5.Sum', 'md5'), ('crypto/sha1.Sum', 'sha1'), ('crypto/sha256.Sum256', 'sha256'), ('crypto/sha512.Sum512', 'sha512')):
    MODELS[_fn] = _mk_sum(_alg)
