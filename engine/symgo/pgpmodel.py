# Idealised OpenPGP for the plumbing-level claims of C11 / C16.
# Keys are abstract entities; a signature is a record (key index, signed bytes); verification succeeds iff the key's
# entity is in the keyring and the bytes presented are exactly the signed ones (unforgeability is assumed).
# The clearsign armour is an abstract text format with the same structure as the real one (begin line, hash header,
# blank line, text, signature block with a token naming the signature record, end line).
import z3
from .prog import Unsupported
from .values import *
from .models import model, MODELS, new_error, index_alts, match_at, as_alts

ENTITY_T = 'golang.org/x/crypto/openpgp.Entity'
HDR = b'-----BEGIN PGP SIGNED MESSAGE-----\nHash: SHA256\n\n'
SIGB = b'\n-----BEGIN PGP SIGNATURE-----\n\n'
SIGE = b'\n-----END PGP SIGNATURE-----\n'
SIGBODY_T = '*verif.sigBody'
UNSUPPORTED_T = 'golang.org/x/crypto/openpgp/errors.UnsupportedError'


def pgp_key(I, st, i):
    keys = dict(st.aux.get('pgpkeys', {}))
    if i not in keys:
        o = I.alloc(st, ENTITY_T)
        keys[i] = Ptr(o, ())
        st.aux['pgpkeys'] = keys
    return keys[i]


def new_sig(st, key, text):
    sigs = st.aux.get('pgpsigs', ())
    st.aux['pgpsigs'] = sigs + ((key, Str(text)),)
    return len(sigs)


def sig_token(i):
    return b'SIG%05d' % i


@model('pault.ag/go/debian/control.verifKey', 'pault.ag/go/debian/deb.verifKey')
def _verif_key(I, st, args):
    if is_sym(args[0]):
        raise Unsupported('symbolic key index')
    return pgp_key(I, st, args[0])


@model('pault.ag/go/debian/control.verifClearsign')
def _verif_clearsign(I, st, args):
    text, key = args
    i = new_sig(st, key, text)
    return Str(tuple(HDR) + tuple(text) + tuple(SIGB) + tuple(sig_token(i)) + tuple(SIGE))


@model('pault.ag/go/debian/deb.verifDetachSign')
def _verif_detachsign(I, st, args):
    data, key = args
    i = new_sig(st, key, data)
    return Str(sig_token(i))


@model('golang.org/x/crypto/openpgp/clearsign.Decode')
def _clearsign_decode(I, st, args):
    data = Str(I.slice_cells(st, args[0]))
    P = I.prog
    bt = 'golang.org/x/crypto/openpgp/clearsign.Block'
    at = 'golang.org/x/crypto/openpgp/armor.Block'

    def nil(st_):
        return Tup((None, args[0]))
    if len(data) < len(HDR):
        return nil(st)
    c0 = match_at(data, 0, HDR)
    if c0 is False:
        return nil(st)
    alts = [(mk_not(c0), nil)]
    for c1, p in index_alts(data, SIGB, len(HDR) - 1):
        if p < 0:
            alts.append((mk_and([c0, c1]), nil))
            continue
        tstart = len(HDR)
        text = data[tstart:p] if p >= tstart else ()
        q = p + len(SIGB)
        tok = data[q:q + 8]
        rest_ok = len(data) >= q + 8 + len(SIGE)
        if not rest_ok:
            alts.append((mk_and([c0, c1]), nil))
            continue
        endc = match_at(data, q + 8, SIGE)
        sigs = st.aux.get('pgpsigs', ())
        matched = []
        for i in range(len(sigs)):
            tc = match_at(tok, 0, sig_token(i))
            if tc is False:
                continue

            def mk(i=i, text=text):
                def f(st_):
                    body = Iface(SIGBODY_T, Opaque('sig', i))
                    afields = [f_['name'] for f_ in P.fields(at)]
                    av = Struct(dict(Type=mkstr('PGP SIGNATURE'), Header=None, Body=body).get(n, I.zero(P.fields(at)[k]['type'])) for k, n in enumerate(afields))
                    ao = I.alloc(st_, at, av)
                    bfields = [f_['name'] for f_ in P.fields(bt)]
                    bytes_sl = I.new_slice(st_, 'uint8', tuple(text))
                    bv = Struct(dict(Headers=None, Plaintext=bytes_sl, Bytes=bytes_sl, ArmoredSignature=Ptr(ao, ())).get(n) for n in bfields)
                    bo = I.alloc(st_, bt, bv)
                    return Tup((Ptr(bo, ()), I.new_slice(st_, 'uint8', tuple(data[q + 8 + len(SIGE):]))))
                return f
            alts.append((mk_and([c0, c1, endc, tc]), mk()))
            matched.append(tc)
        # the armour is intact but its body names no signature that was ever made: the block is handed out all the
        # same (the real decoder looks at the packets only when the signature is checked) with a damaged signature
        unknown = mk_and([c0, c1, endc, mk_not(mk_or(matched))])
        if unknown is not False:
            alts.append((unknown, mk(-1)))
        alts.append((mk_and([c0, c1, mk_not(endc)]), nil))
    return ('alts', alts)


def read_all(I, st, reader):
    """drain an io.Reader through the interpreter; returns [(state, Str)] (panics/short paths are dropped)"""
    outs = I.call('io.ReadAll', [reader], st)
    res = []
    for o in outs:
        if o.kind == 'ret' and o.val[1] is None:
            res.append((o.st, Str(I.slice_cells(o.st, o.val[0]))))
        elif o.kind == 'ret':
            res.append((o.st, None))
    return res


@model('golang.org/x/crypto/openpgp.CheckDetachedSignature')
def _check_detached(I, st, args):
    keyring, signed, signature = args
    from .interp import Outcome
    outs = []
    if keyring is None:
        ents = ()
    else:
        if not keyring.t.endswith('EntityList'):
            raise Unsupported('keyring of type ' + keyring.t)
        kv = keyring.v
        if keyring.t.startswith('*'):
            kv = I.load(st, kv) if kv is not None else None
        ents = I.slice_cells(st, kv)
    for st2, data in read_all(I, st, signed):
        if data is None:
            outs.append(Outcome(st2, 'ret', Tup((None, new_error(I, st2, 'reading the signed data failed')))))
            continue
        # the signature reader: the abstract body of an armour block, or any reader holding a signature token
        sig = None
        if signature is not None and signature.t == SIGBODY_T:
            sig = signature.v.data
            states = [(st2, sig)]
        else:
            states = []
            for st3, tok in read_all(I, st2, signature):
                states.append((st3, ('token', tok)))
        for st3, sg in states:
            sigs = st3.aux.get('pgpsigs', ())
            cands = []
            if isinstance(sg, int):
                cands = [(True, sg)] if sg >= 0 else []
            else:
                tok = sg[1]
                if tok is not None and len(tok) == 8:
                    for i in range(len(sigs)):
                        c = match_at(tok, 0, sig_token(i))
                        if c is not False:
                            cands.append((c, i))
            alts = []
            for c, i in cands:
                key, text = sigs[i]
                keyptr = st3.aux.get('pgpkeys', {}).get(key)
                inring = any(same(e, keyptr) for e in ents)
                valid = mk_and([c, I.str_eq(text, data)]) if inring else False
                if valid is not False:
                    alts.append((valid, Tup((keyptr, None))))
            bad = mk_not(mk_or([a[0] for a in alts]))
            alts.append((bad, (lambda s_: Tup((None, new_error(I, s_, 'openpgp: signature verification failed'))))))
            # a signature packet that names no known signature is a damaged packet: the real parser answers such
            # packets with a structural error or - unknown version, type, algorithm - with errors.UnsupportedError
            known = mk_or([c for c, _ in cands]) if cands else False
            if known is not True and getattr(I, 'nondet_env', True):
                alts.append((mk_not(known), Tup((None, Iface(UNSUPPORTED_T, mkstr(b'openpgp: unsupported feature: signature packet'))))))
            outs.extend(I.resolve(st3, ('alts', alts)))
    return ('outcomes', outs)


@model((SIGBODY_T, 'Read'))
def _sigbody_read(I, st, args):
    return Tup((0, Iface('*errors.errorString', None))) if False else Tup((0, I.load(st, Ptr('io.EOF', ()))))


@model((UNSUPPORTED_T, 'Error'))
def _unsupported_error(I, st, args):
    return args[0]
