# A small deterministic model of the filesystem calls the library makes (package os is not executed).
# State: st.aux['fs'] = {clean path (bytes): ('file', content Str) | ('dir',)} for concrete paths, and
# st.aux['fslog'] = tuple of events (op, path Str, ...) for every call (paths there may be symbolic).
# Failures are those a real filesystem produces for the modelled state: missing source, source that is a
# directory (Open succeeds, reading fails, a created destination stays behind empty), directory in the way of
# Create/Rename target, missing parent directory.
import posixpath
import z3
from .prog import Unsupported
from .values import *
from .models import model, MODELS, new_error

FILE_T = '*os.File'


def fs(st):
    d = st.aux.get('fs')
    if d is None:
        d = st.aux['fs'] = {}
    return d


def fs_set(st, path, val):
    d = dict(fs(st))
    if val is None:
        d.pop(path, None)
    else:
        d[path] = val
    st.aux['fs'] = d


def log(st, *ev):
    st.aux['fslog'] = st.aux.get('fslog', ()) + (ev,)


def cpath(p, st=None):
    """concrete, cleaned path bytes of a Str, or None if symbolic.  A symbolic byte whose domain on this path has
    shrunk to a single value (path.Clean has looked at every byte by the time the path reaches the filesystem)
    counts as concrete."""
    if not concrete_str(p):
        if st is None:
            return None
        out = []
        for b in p:
            if isinstance(b, z3.ExprRef):
                if not (z3.is_const(b) and b.decl().kind() == z3.Z3_OP_UNINTERPRETED):
                    return None
                d = st.dom.get(b.decl().name())
                if d is None or d == 0 or (d & (d - 1)) != 0:
                    return None
                out.append(d.bit_length() - 1)
            else:
                out.append(b)
        b = bytes(out)
    else:
        b = bytes(p)
    if b == b'':
        return b''
    return posixpath.normpath(b.decode('latin-1')).encode('latin-1')


def split_on_path(I, st, p, again):
    """p has a symbolic byte whose domain is not a single value: fork over its values and call again"""
    for b in p:
        if isinstance(b, z3.ExprRef):
            if not (z3.is_const(b) and b.decl().kind() == z3.Z3_OP_UNINTERPRETED):
                raise Unsupported('filesystem call on a computed symbolic path')
            d = st.dom.get(b.decl().name(), (1 << 256) - 1)
            if d & (d - 1):
                vals = [v for v in range(256) if (d >> v) & 1]
                if len(vals) > 8:
                    raise Unsupported('filesystem call on a path byte with %d possible values' % len(vals))
                return ('alts', [(b == bvval(v, 8), (lambda s_: again(s_))) for v in vals])
    raise Unsupported('path not concretisable')


def with_paths(*idx):
    def deco(f):
        def g(I, st, args):
            for i in idx:
                if cpath(args[i], st) is None:
                    return split_on_path(I, st, args[i], lambda s_: g(I, s_, args))
            return f(I, st, args)
        return g
    return deco


def follow(st, c, depth=0):
    """resolve a symbolic link in the final component (directories are never links in the modelled states);
    None on a loop"""
    while True:
        e = fs(st).get(c)
        if e is None or e[0] != 'symlink':
            return c
        depth += 1
        if depth > 8:
            return None
        t = e[1]
        if t.startswith(b'/'):
            c = posixpath.normpath(t.decode('latin-1')).encode('latin-1')
        else:
            c = posixpath.normpath(posixpath.join(posixpath.dirname(c.decode('latin-1')), t.decode('latin-1'))).encode('latin-1')


def parent_ok(st, path):
    par = posixpath.dirname(path.decode('latin-1')).encode('latin-1')
    if par in (b'', b'/', b'.'):
        return True
    e = fs(st).get(par)
    return e is not None and e[0] == 'dir'


def err(I, st, what):
    return new_error(I, st, what)


def need_concrete(p, op, st=None):
    c = cpath(p, st)
    if c is None:
        raise Unsupported('%s on a symbolic path (use the confinement harness)' % op)
    return c


@model('os.MkdirAll', 'os.Mkdir')
def _mkdir(I, st, args):
    p = need_concrete(args[0], 'Mkdir', st)
    log(st, 'mkdir', args[0])
    e = fs(st).get(p)
    if e is not None and e[0] == 'file':
        return err(I, st, 'mkdir: not a directory')
    # create parents too (MkdirAll semantics; Mkdir is only used with an existing parent)
    parts = p.decode('latin-1').split('/')
    cur = ''
    for i, part in enumerate(parts):
        cur = part if i == 0 else cur + '/' + part
        if cur in ('', '.'):
            continue
        if fs(st).get(cur.encode('latin-1')) is None:
            fs_set(st, cur.encode('latin-1'), ('dir',))
    return None


@model('os.WriteFile')
def _writefile(I, st, args):
    p = need_concrete(args[0], 'WriteFile', st)
    log(st, 'write', args[0])
    p = follow(st, p)
    if p is None:
        return err(I, st, 'open: too many levels of symbolic links')
    if not parent_ok(st, p):
        return err(I, st, 'open: no such file or directory')
    e = fs(st).get(p)
    if e is not None and e[0] == 'dir':
        return err(I, st, 'open: is a directory')
    fs_set(st, p, ('file', Str(I.slice_cells(st, args[1]))))
    return None


@model('os.ReadFile')
def _readfile(I, st, args):
    p = need_concrete(args[0], 'ReadFile', st)
    log(st, 'read', args[0])
    p = follow(st, p)
    e = fs(st).get(p) if p is not None else None
    if e is None:
        return Tup((None, err(I, st, 'open: no such file or directory')))
    if e[0] == 'dir':
        return Tup((None, err(I, st, 'read: is a directory')))
    return Tup((I.new_slice(st, 'uint8', tuple(e[1])), None))


def fileinfo(I, st, isdir, size=0):
    return Iface('*verif.fileInfo', Opaque('fileinfo', (isdir, size)))


@model(('*verif.fileInfo', 'IsDir'))
def _fi_isdir(I, st, args):
    return args[0].data[0]


@model(('*verif.fileInfo', 'Size'))
def _fi_size(I, st, args):
    return args[0].data[1]


@model(('*verif.fileInfo', 'Mode'))
def _fi_mode(I, st, args):
    if len(args[0].data) > 2 and args[0].data[2]:
        return 0x8000000 | 0o777          # fs.ModeSymlink
    return (0x80000000 | 0o755) if args[0].data[0] else 0o644


@model('os.Lstat')
@with_paths(0)
def _lstat(I, st, args):
    c = cpath(args[0], st)
    e = fs(st).get(c) if c is not None else None
    if e is not None and e[0] == 'symlink':
        log(st, 'stat', args[0])
        return Tup((Iface('*verif.fileInfo', Opaque('fileinfo', (False, len(e[1]), True))), None))
    return _stat(I, st, args)


@model('os.Stat')
@with_paths(0)
def _stat(I, st, args):
    c = cpath(args[0], st)
    log(st, 'stat', args[0])
    if c is not None:
        c = follow(st, c)
        if c is None:
            return Tup((None, err(I, st, 'stat: too many levels of symbolic links')))
    if c is None:
        # symbolic path: existence unknown; both answers are possible
        return ('alts', [(True, lambda s_: Tup((fileinfo(I, s_, False), None))), (True, lambda s_: Tup((fileinfo(I, s_, True), None))),
                         (True, lambda s_: Tup((None, err(I, s_, 'stat: no such file or directory'))))])
    e = fs(st).get(c)
    if e is None:
        return Tup((None, err(I, st, 'stat: no such file or directory')))
    return Tup((fileinfo(I, st, e[0] == 'dir', len(e[1]) if e[0] == 'file' else 4096), None))


def mkfile(I, st, path, mode, pathstr):
    o = I.alloc(st, None, ('osfile', path, mode, False, pathstr))
    return Ptr(o, ())


@model('os.Open')
@with_paths(0)
def _open(I, st, args):
    c = cpath(args[0], st)
    log(st, 'open', args[0])
    if c is None:
        return ('alts', [(True, lambda s_: Tup((mkfile(I, s_, None, 'r', args[0]), None))), (True, lambda s_: Tup((None, err(I, s_, 'open failed'))))])
    c = follow(st, c)
    e = fs(st).get(c) if c is not None else None
    if e is None:
        return Tup((None, err(I, st, 'open: no such file or directory')))
    return Tup((mkfile(I, st, c, 'r', args[0]), None))


@model('os.Create')
@with_paths(0)
def _create(I, st, args):
    c = cpath(args[0], st)
    log(st, 'create', args[0])
    if c is None:
        return ('alts', [(True, lambda s_: Tup((mkfile(I, s_, None, 'w', args[0]), None))), (True, lambda s_: Tup((None, err(I, s_, 'create failed'))))])
    c = follow(st, c)
    if c is None:
        return Tup((None, err(I, st, 'open: too many levels of symbolic links')))
    e = fs(st).get(c)
    if e is not None and e[0] == 'dir':
        return Tup((None, err(I, st, 'open: is a directory')))
    if not parent_ok(st, c):
        return Tup((None, err(I, st, 'open: no such file or directory')))
    fs_set(st, c, ('file', Str()))        # created / truncated
    return Tup((mkfile(I, st, c, 'w', args[0]), None))


@model('(*os.File).Close')
def _file_close(I, st, args):
    f = args[0]
    if f is None:
        return err(I, st, 'invalid argument')
    rec = st.heap[f.obj]
    log(st, 'close', rec[4])
    if rec[3]:
        return err(I, st, 'file already closed')
    st.heap[f.obj] = rec[:3] + (True,) + rec[4:]
    return None


@model('io.Copy')
def _io_copy(I, st, args):
    dst, src = args
    if dst is None or src is None or dst.t != FILE_T or src.t != FILE_T:
        from .interp import FALLBACK
        return FALLBACK
    d, s = st.heap[dst.v.obj], st.heap[src.v.obj]
    log(st, 'copy', s[4], d[4])
    if s[1] is None or d[1] is None:
        # symbolic paths: the copy may succeed or fail
        return ('alts', [(True, Tup((0, None))), (True, lambda s_: Tup((0, err(I, s_, 'copy failed'))))])
    if s[3] or d[3]:
        return Tup((0, err(I, st, 'file already closed')))
    e = fs(st).get(s[1])
    if e is None or e[0] == 'dir':
        return Tup((0, err(I, st, 'read: is a directory')))
    fs_set(st, d[1], ('file', e[1]))
    return Tup((len(e[1]), None))


@model('os.Rename')
@with_paths(0, 1)
def _rename(I, st, args):
    a, b = cpath(args[0], st), cpath(args[1], st)
    log(st, 'rename', args[0], args[1])
    if a is None or b is None:
        return ('alts', [(True, None), (True, lambda s_: err(I, s_, 'rename failed'))])
    e = fs(st).get(a)
    if e is None:
        return err(I, st, 'rename: no such file or directory')
    t = fs(st).get(b)
    if t is not None and (t[0] == 'dir') != (e[0] == 'dir'):
        return err(I, st, 'rename: file exists / is a directory')
    if t is not None and t[0] == 'dir':
        return err(I, st, 'rename: directory not empty')
    if not parent_ok(st, b):
        return err(I, st, 'rename: no such file or directory')
    d = {}
    for k, v in fs(st).items():
        if k == a:
            d[b] = v
        elif k == b:
            continue                         # the target is replaced
        elif k.startswith(a + b'/'):
            d[b + k[len(a):]] = v          # a directory takes its contents along
        else:
            d[k] = v
    st.aux['fs'] = d
    return None


@model('os.Remove')
@with_paths(0)
def _remove(I, st, args):
    a = cpath(args[0], st)
    log(st, 'remove', args[0])
    if a is None:
        return ('alts', [(True, None), (True, lambda s_: err(I, s_, 'remove failed'))])
    e = fs(st).get(a)
    if e is None:
        return err(I, st, 'remove: no such file or directory')
    if e[0] == 'dir':
        pre = a + b'/'
        if any(k.startswith(pre) for k in fs(st)):
            return err(I, st, 'remove: directory not empty')
    fs_set(st, a, None)
    return None


@model('os.Symlink')
def _symlink(I, st, args):
    t = need_concrete(args[0], 'Symlink', None) if concrete_str(args[0]) else None
    if t is None:
        raise Unsupported('Symlink with a symbolic target')
    t = bytes(args[0])                     # the target is stored verbatim, not cleaned
    p = need_concrete(args[1], 'Symlink', st)
    log(st, 'symlink', args[0], args[1])
    if fs(st).get(p) is not None:
        return err(I, st, 'symlink: file exists')
    if not parent_ok(st, p):
        return err(I, st, 'symlink: no such file or directory')
    fs_set(st, p, ('symlink', t))
    return None


@model('os.Link')
@with_paths(0, 1)
def _link(I, st, args):
    # link(2) on Linux: the final component of the old name is not followed; the new name gets the same object
    # (contents are values in this model, so later writes through one name are not seen through the other - the
    # library never writes to a file after linking it)
    a, b = cpath(args[0], st), cpath(args[1], st)
    log(st, 'link', args[0], args[1])
    if a is None or b is None:
        return ('alts', [(True, None), (True, lambda s_: err(I, s_, 'link failed'))])
    e = fs(st).get(a)
    if e is None:
        return err(I, st, 'link: no such file or directory')
    if e[0] == 'dir':
        return err(I, st, 'link: operation not permitted')
    if fs(st).get(b) is not None:
        return err(I, st, 'link: file exists')
    if not parent_ok(st, b):
        return err(I, st, 'link: no such file or directory')
    fs_set(st, b, e)
    return None


@model('os.Readlink')
def _readlink(I, st, args):
    p = need_concrete(args[0], 'Readlink', st)
    e = fs(st).get(p)
    if e is None or e[0] != 'symlink':
        return Tup((mkstr(b''), err(I, st, 'readlink: invalid argument')))
    return Tup((mkstr(e[1]), None))


@model('path/filepath.EvalSymlinks')
def _evalsymlinks(I, st, args):
    p = need_concrete(args[0], 'EvalSymlinks', st)
    c = follow(st, p)
    if c is None or (fs(st).get(c) is None and c not in (b'/', b'.', b'')):
        return Tup((mkstr(b''), err(I, st, 'lstat: no such file or directory')))
    return Tup((mkstr(c), None))


@model('path/filepath.Abs')
def _abs(I, st, args):
    p = args[0]
    c = cpath(p, st)
    if c is None:
        raise Unsupported('filepath.Abs on a symbolic path')
    if c.startswith(b'/'):
        return Tup((mkstr(c), None))
    return Tup((mkstr(b'/cwd/' + c), None))


@model('os.MkdirTemp')
def _mkdirtemp(I, st, args):
    p = b'/tmp/verif-root'
    log(st, 'mkdir', mkstr(p))
    fs_set(st, b'/tmp', ('dir',))
    fs_set(st, p, ('dir',))
    return Tup((mkstr(p), None))


@model('os.RemoveAll')
def _removeall(I, st, args):
    a = need_concrete(args[0], 'RemoveAll', st)
    d = {k: v for k, v in fs(st).items() if k != a and not k.startswith(a + b'/')}
    st.aux['fs'] = d
    return None
