# Symbolic interpreter for go/ssa (JSON from ssaexport).  See DESIGN.md section 1.2.
import heapq, itertools, sys, time
from collections import namedtuple, Counter
import z3
from z3 import (BitVec, BitVecVal, BoolVal, If, And, Or, Not, ULT, ULE, UGT, UGE, UDiv, URem, SRem, LShR, Extract,
                ZeroExt, SignExt, Concat, is_true, is_false, simplify, sat, unsat)
from .prog import Prog, Unsupported, b64
from .values import *
from . import domains

sys.setrecursionlimit(20000)

Outcome = namedtuple('Outcome', 'st kind val')   # kind: 'ret' | 'panic' | 'unwind' | 'exit'
OBJ = itertools.count(1)
OBJTYPE = {}     # heap object id -> type id of the stored value (ids are globally unique)


class Inconclusive(Exception):
    pass


class Ctx:
    """one persistent solver; feasibility queries by check-sat-assuming"""

    def __init__(self, timeout_ms=120000):
        self.solver = z3.Solver()
        self.solver.set('timeout', timeout_ms)
        self.base = []          # global assumptions (input domain), added to the solver
        self.stats = Counter()
        self.solver_time = 0.0
        self.dom0 = {}
        self.mvars0 = frozenset()

    def assume(self, c):
        if c is True:
            return
        self.base.append(c)
        self.solver.add(c)
        r = domains.reduce(domains.structure(c), self.dom0)
        if r is False:
            raise Inconclusive('contradictory input assumptions')
        if r is True:
            return
        if r[0] == 'conj' and not (set(r[1]) & self.mvars0):
            self.dom0.update(r[1])
        else:
            self.mvars0 = self.mvars0 | frozenset(v for v in domains.free_vars(c) if v is not None)

    def check(self, conjs):
        """returns a model if conjs (with the base assumptions) is satisfiable, None if not"""
        cs = []
        for c in conjs:
            if c is True:
                continue
            if c is False:
                return None
            cs.append(c)
        self.stats['solver_calls'] += 1
        t = time.time()
        r = self.solver.check(*cs)
        self.solver_time += time.time() - t
        if r == sat:
            self.stats['sat'] += 1
            return self.solver.model()
        if r == unsat:
            self.stats['unsat'] += 1
            return None
        self.stats['unknown'] += 1
        raise Inconclusive('solver answered unknown: ' + self.solver.reason_unknown())


def cross_check(ctx, conjs, tag, timeout_s=300):
    """re-decide one verification condition with the other installed solvers (z3 4.8.12 CLI, cvc5): the formula
    is dumped as SMT-LIB2 with (set-logic ALL); any `(error` line or a verdict different from `expect` is an
    engine error.  Returns {solver: verdict}."""
    import subprocess, os, tempfile
    s = z3.Solver()
    for c in ctx.base:
        s.add(c)
    for c in conjs:
        if c is True:
            continue
        s.add(c)
    text = '(set-logic ALL)\n' + s.sexpr() + '\n(check-sat)\n'
    fd, path = tempfile.mkstemp(prefix='vc_%s_' % tag, suffix='.smt2')
    os.write(fd, text.encode())
    os.close(fd)
    out = {}
    try:
        for name, cmd in (('z3-4.8.12', ['/usr/bin/z3', '-smt2', '-T:%d' % timeout_s, path]), ('cvc5', ['cvc5', '--lang=smt2', '--tlimit=%d' % (timeout_s * 1000), path])):
            try:
                r = subprocess.run(cmd, capture_output=True, text=True, timeout=timeout_s + 30)
                txt = (r.stdout + r.stderr).strip()
                if '(error' in txt:
                    out[name] = 'error: ' + txt[:200]
                elif 'interrupted by timeout' in txt or txt.startswith('timeout') or txt.split()[:1] == ['unknown']:
                    out[name] = 'timeout'
                else:
                    out[name] = txt.split()[0] if txt else 'no answer'
            except subprocess.TimeoutExpired:
                out[name] = 'timeout'
            except FileNotFoundError:
                out[name] = 'not installed'
    finally:
        os.remove(path)
    return out


class State:
    __slots__ = ('guard', 'heap', 'model', 'aux', 'dom', 'mvars', 'chk')

    def __init__(self, guard=(), heap=None, model=None, aux=None, dom=None, mvars=frozenset()):
        self.guard = guard
        self.heap = heap if heap is not None else {}
        self.model = model
        self.aux = aux if aux is not None else {}
        self.dom = dom if dom is not None else {}
        self.mvars = mvars
        self.chk = None     # the guard tuple last shown satisfiable (merged regime, back-edge checks)

    def fork(self, cond=None, model=None):
        g = self.guard if cond is None or cond is True else self.guard + (cond,)
        return State(g, dict(self.heap), model, dict(self.aux), dict(self.dom), self.mvars)


class Frame:
    __slots__ = ('st', 'regs', 'block', 'pc', 'iters', 'defers', 'seq')

    def __init__(self, st, regs, block, pc, iters, defers):
        self.st = st
        self.regs = regs
        self.block = block
        self.pc = pc
        self.iters = iters
        self.defers = defers

    def copy(self, st):
        return Frame(st, dict(self.regs), self.block, self.pc, self.iters, list(self.defers))


class Unmergeable(Exception):
    pass


FALLBACK = object()     # a model may return this to have the function executed from its SSA after all


def aux_same(a, b):
    if a is b:
        return True
    if len(a) != len(b):
        return False
    for k, v in a.items():
        if b.get(k) is not v:
            return False
    return True


class LazyCond:
    """the condition under which the first of two merged states is the live one, built on demand"""
    __slots__ = ('g', 'v')

    def __init__(self, g):
        self.g = g
        self.v = None

    def get(self):
        if self.v is None:
            self.v = tobool(mk_and(self.g))
        return self.v


def eval_bool(model, c):
    if c is True or c is False:
        return c
    v = model.eval(c, model_completion=True)
    if is_true(v):
        return True
    if is_false(v):
        return False
    return None


class Interp:
    def __init__(self, prog, ctx=None, merge=False, unwind=64, feas=True, map_orders=None, merge_ints=None, backedge_check=True, map_order_filter=None):
        self.prog = prog
        self.ctx = ctx or Ctx()
        self.merge = merge          # merge states that meet at the same scheduling key
        self.feas = feas            # check feasibility at every symbolic branch (enumerating regime)
        self.unwind = unwind        # iteration cap per loop header
        self.unwind_for = {}        # fid -> cap
        self.models = {}            # fid -> python model
        self.stats = Counter()
        self.inited = set()
        self.base_heap = {}
        self.map_orders = map_orders  # None: insertion order; 'rot': all rotations; 'rot1': one rotation per map object; 'perm': all permutations
        self.map_order_filter = map_order_filter  # substring of the map type the exploration is restricted to
        self.global_reads = set()
        self.global_writes = set()
        self.track_globals = False
        self.depth = 0
        self.ret_sites = {}     # return statements of the entry function reached, by source position (vacuity guard)
        self.trace = False
        self.lenient = False
        self._base_ids = None
        self.merge_ints = merge if merge_ints is None else merge_ints
        self.backedge_check = backedge_check
        from . import models as _m
        _m.install(self)
        sm = {}
        for k in self.models:
            if isinstance(k, tuple):
                sm.setdefault(k[0], set()).add(k[1])
        self.prog.synthetic_methods = sm

    # ------------------------------------------------------------------ types / constants
    def zero(self, t):
        z = self.prog._zero.get(t)
        if z is not None or t in self.prog._zero:
            return z
        _, ty = self.prog.under(t)
        k = ty['kind']
        if k == 'basic':
            n = ty['name']
            if self.prog.intinfo(t):
                z = 0
            elif n in ('bool', 'untyped bool'):
                z = False
            elif n in ('string', 'untyped string'):
                z = Str()
            elif n in ('float64', 'float32', 'untyped float'):
                z = 0.0
            elif n in ('unsafe.Pointer', 'Pointer', 'untyped nil'):
                z = None
            else:
                raise Unsupported('zero of basic ' + n)
        elif k in ('pointer', 'slice', 'map', 'interface', 'signature', 'chan'):
            z = None
        elif k == 'struct':
            z = Struct(self.zero(f['type']) for f in ty['fields'])
        elif k == 'array':
            z = Arr((self.zero(ty['elem']),) * ty['len'])
        elif k == 'tuple':
            z = Tup(self.zero(e) for e in ty['elems'])
        else:
            raise Unsupported('zero of ' + k)
        self.prog._zero[t] = z
        return z

    def const(self, o):
        cv = o.get('cv')
        if cv is not None:
            return cv[0]
        t = o['t']
        if o.get('nil'):
            v = self.zero(t)
        elif 'v' in o:
            v = bool(o['v'])
        elif 's' in o:
            v = Str(b64(o['s']))
        elif 'i' in o:
            ii = self.prog.intinfo(t)
            if ii:
                v = norm(int(o['i']), ii[0], ii[1])
            elif self.prog.basicname(t) in ('float64', 'float32', 'untyped float'):
                v = float(int(o['i']))
            else:
                raise Unsupported('int const of type ' + t)
        elif 'f' in o:
            from fractions import Fraction
            v = float(Fraction(o['f']))
        else:
            raise Unsupported('const ' + str(o))
        o['cv'] = (v,)
        return v

    def operand(self, fr, o):
        k = o['k']
        if k == 'reg':
            return fr.regs[o['n']]
        if k == 'const':
            cv = o.get('cv')
            if cv is not None:
                return cv[0]
            return self.const(o)
        if k == 'global':
            return Ptr(o['n'], ())
        if k == 'func':
            return Closure(o['id'], ())
        if k == 'builtin':
            return ('builtin', o['n'])
        raise Unsupported('operand ' + k)

    # ------------------------------------------------------------------ heap
    def alloc(self, st, t, val=None):
        o = next(OBJ)
        OBJTYPE[o] = t
        st.heap[o] = self.zero(t) if val is None else val
        return o

    def alloc_array(self, st, elem_t, cells):
        o = next(OBJ)
        OBJTYPE[o] = ('array', elem_t)
        st.heap[o] = Arr(cells)
        return o

    def objtype_elem(self, obj):
        t = OBJTYPE.get(obj)
        if isinstance(t, tuple):
            return t[1]
        if t is None:
            return None
        return self.prog.under(t)[1].get('elem')

    def heapget(self, st, obj):
        v = st.heap.get(obj)
        if v is None and obj not in st.heap:
            if isinstance(obj, str):
                g = self.prog.globals[obj]
                pkg = g['pkg']
                if pkg not in self.inited:
                    raise Unsupported('read of global %s of a package that was not initialised' % obj)
                v = st.heap[obj] = self.zero(g['elem'])
            else:
                raise Unsupported('dangling object %r' % (obj,))
        return v

    def subtype(self, t, idx):
        """type of component idx of a value of type t (t may be ('array', elem))"""
        if t is None:
            return None
        if isinstance(t, tuple):
            return t[1]
        _, ty = self.prog.under(t)
        if ty['kind'] == 'struct':
            return ty['fields'][idx]['type']
        if ty['kind'] == 'array':
            return ty['elem']
        return None

    def getp(self, v, path, t=None):
        for i, p in enumerate(path):
            if type(p) is SymIdx:
                cells = v[p.base:p.base + p.n]
                et = self.subtype(t, 0)
                rest = path[i + 1:]
                if rest:
                    cells = [self.getp(c, rest, et) for c in cells]
                    et = None
                return self.select(cells, p.idx, et)
            v = v[p]
            if t is not None:
                t = self.subtype(t, p)
        return v

    def setp(self, v, path, nv, t=None):
        if not path:
            return nv
        p = path[0]
        if type(p) is SymIdx:
            et = self.subtype(t, 0)
            out = list(v)
            oldmi = self.merge_ints
            self.merge_ints = True
            try:
                for k in range(p.n):
                    old = v[p.base + k]
                    new = self.setp(old, path[1:], nv, et)
                    c = (p.idx == bvval(k, p.idx.size()))
                    out[p.base + k] = self.merge_value(c, new, old, et)
            finally:
                self.merge_ints = oldmi
            return type(v)(out)
        st = self.subtype(t, p) if t is not None else None
        return type(v)(v[:p] + (self.setp(v[p], path[1:], nv, st),) + v[p + 1:])

    def load(self, st, ptr):
        if ptr is None:
            raise GoPanic('nil pointer dereference')
        if type(ptr) is not Ptr:
            raise Unsupported('load through %r' % (ptr,))
        if self.track_globals and isinstance(ptr.obj, str):
            self.global_reads.add(ptr.obj)
        v = self.heapget(st, ptr.obj)
        if ptr.path:
            return self.getp(v, ptr.path, OBJTYPE.get(ptr.obj) if not isinstance(ptr.obj, str) else self.prog.globals[ptr.obj]['elem'])
        return v

    def store(self, st, ptr, nv):
        if ptr is None:
            raise GoPanic('nil pointer dereference (store)')
        if self.track_globals and (isinstance(ptr.obj, str) or ptr.obj in self.base_ids):
            self.global_writes.add(ptr.obj if isinstance(ptr.obj, str) else 'object owned by package-level state (%s)' % OBJTYPE.get(ptr.obj))
        if ptr.path:
            v = self.heapget(st, ptr.obj)
            t = OBJTYPE.get(ptr.obj) if not isinstance(ptr.obj, str) else self.prog.globals[ptr.obj]['elem']
            st.heap[ptr.obj] = self.setp(v, ptr.path, nv, t)
        else:
            st.heap[ptr.obj] = nv

    def slice_cells(self, st, sl):
        if sl is None:
            return ()
        if type(sl) is Str:
            return tuple(sl)
        arr = self.heapget(st, sl.obj)
        if sl.path:
            arr = self.getp(arr, sl.path)
        return arr[sl.off:sl.off + sl.len]

    def slice_store(self, st, sl, i, cells):
        """overwrite cells [i, i+len(cells)) of slice sl"""
        if not cells:
            return
        if self.track_globals and sl.obj in self.base_ids:
            self.global_writes.add('array owned by package-level state (%s)' % (OBJTYPE.get(sl.obj),))
        arr = self.heapget(st, sl.obj)
        if sl.path:
            sub = self.getp(arr, sl.path)
            sub = Arr(sub[:sl.off + i] + tuple(cells) + sub[sl.off + i + len(cells):])
            st.heap[sl.obj] = self.setp(arr, sl.path, sub)
        else:
            st.heap[sl.obj] = Arr(arr[:sl.off + i] + tuple(cells) + arr[sl.off + i + len(cells):])

    def new_slice(self, st, elem_t, cells, cap=None):
        cells = tuple(cells)
        n = len(cells)
        if cap is not None and cap > n:
            cells = cells + (self.zero(elem_t),) * (cap - n)
        o = self.alloc_array(st, elem_t, cells)
        return Slice(o, (), 0, n, len(cells))

    def bytes_slice(self, st, s):
        return self.new_slice(st, 'uint8' if 'uint8' in self.prog.types else 'byte', tuple(s))

    # ------------------------------------------------------------------ symbolic selection / merging
    def select(self, cells, idx, t=None):
        """cells[idx] for a symbolic idx known to be within range"""
        old = self.merge_ints
        self.merge_ints = True
        try:
            return self._select(cells, idx, t)
        finally:
            self.merge_ints = old

    def _select(self, cells, idx, t=None):
        n = len(cells)
        if n == 0:
            raise Unsupported('select from empty')
        if n == 1:
            return cells[0]
        w = idx.size()
        groups = []   # (value, [indexes])
        for i, c in enumerate(cells):
            for g in groups:
                if same(g[0], c):
                    g[1].append(i)
                    break
            else:
                groups.append((c, [i]))
            if len(groups) > 64 and i < 80:
                pass
        if len(groups) == 1:
            return groups[0][0]
        groups.sort(key=lambda g: -len(g[1]))
        res = groups[0][0]
        for val, idxs in groups[1:]:
            conds = []
            a = idxs[0]
            prev = a
            for j in idxs[1:] + [None]:
                if j is not None and j == prev + 1:
                    prev = j
                    continue
                if a == prev:
                    conds.append(idx == bvval(a, w))
                else:
                    conds.append(And(UGE(idx, bvval(a, w)), ULE(idx, bvval(prev, w))))
                a = prev = j
            c = conds[0] if len(conds) == 1 else Or(*conds)
            res = self.merge_value(c, val, res, t)
        return res

    def merge_value(self, c, a, b, t=None):
        """value equal to a when c holds and b otherwise"""
        if a is b:
            return a
        if type(c) is LazyCond:
            if isinstance(a, tuple) or isinstance(b, tuple):
                pass
            else:
                sa, sb = isinstance(a, z3.ExprRef), isinstance(b, z3.ExprRef)
                if not sa and not sb:
                    if a is None or b is None:
                        raise Unmergeable('nil vs value')
                    if isinstance(a, bool) and isinstance(b, bool):
                        if a == b:
                            return a
                    elif isinstance(a, int) and isinstance(b, int) and not isinstance(a, bool) and not isinstance(b, bool):
                        if a == b:
                            return a
                        if not self.merge_ints:
                            raise Unmergeable('distinct concrete integers are kept apart')
                elif sa and sb and a.eq(b):
                    return a
                c = c.get()
        sa, sb = isinstance(a, z3.ExprRef), isinstance(b, z3.ExprRef)
        if sa or sb:
            if sa and sb:
                if a.eq(b):
                    return a
                return If(c, a, b)
            e = a if sa else b
            if z3.is_bool(e):
                return If(c, tobool(a), tobool(b))
            w = e.size()
            return If(c, tobv(a, w), tobv(b, w))
        if isinstance(a, bool) and isinstance(b, bool):
            if a == b:
                return a
            return If(c, tobool(a), tobool(b))
        if isinstance(a, int) and isinstance(b, int) and not isinstance(a, bool) and not isinstance(b, bool):
            if a == b:
                return a
            if not self.merge_ints:
                raise Unmergeable('distinct concrete integers are kept apart')
            ii = self.prog.intinfo(t) if t is not None and not isinstance(t, tuple) else None
            if ii is None:
                raise Unmergeable('int without width')
            return If(c, bvval(a, ii[0]), bvval(b, ii[0]))
        if a is None or b is None:
            raise Unmergeable('nil vs value')
        ta = type(a)
        if ta is not type(b):
            raise Unmergeable('kinds differ')
        if ta is Str:
            if len(a) != len(b):
                raise Unmergeable('string lengths')
            if same(a, b):
                return a
            if type(c) is LazyCond:
                c = c.get()
            return Str(x if (x is y or (not isinstance(x, z3.ExprRef) and not isinstance(y, z3.ExprRef) and x == y))
                       else If(c, tobv(x, 8), tobv(y, 8)) for x, y in zip(a, b))
        if ta in (Struct, Arr, Tup):
            if len(a) != len(b):
                raise Unmergeable('shape')
            if same(a, b):
                return a
            out = []
            for i, (x, y) in enumerate(zip(a, b)):
                if ta is Tup and t is not None and not isinstance(t, tuple) and self.prog.types[t]['kind'] == 'tuple':
                    st_ = self.prog.types[t]['elems'][i]
                else:
                    st_ = self.subtype(t, i)
                out.append(self.merge_value(c, x, y, st_))
            return ta(out)
        if ta is Iface:
            if a.t != b.t:
                raise Unmergeable('dynamic types differ')
            return Iface(a.t, self.merge_value(c, a.v, b.v, a.t))
        if ta is MapVal:
            if same(a, b):
                return a
            raise Unmergeable('maps differ')
        if same(a, b):
            return a
        raise Unmergeable('references differ')

    def merge_states(self, s1, s2):
        """merge s2 into s1 (registers are merged by the caller); raises Unmergeable"""
        c = LazyCond(s1.guard[self._common(s1.guard, s2.guard):])
        h1, h2 = s1.heap, s2.heap
        if len(h1) != len(h2):
            raise Unmergeable('heap sizes')
        nh = {}
        for k, v1 in h1.items():
            if k not in h2:
                raise Unmergeable('heap keys')
            v2 = h2[k]
            if v1 is v2:
                nh[k] = v1
            else:
                t = OBJTYPE.get(k) if not isinstance(k, str) else self.prog.globals[k]['elem']
                nh[k] = self.merge_value(c, v1, v2, t)
        if not aux_same(s1.aux, s2.aux):
            raise Unmergeable('aux')
        return c, nh

    @staticmethod
    def _common(g1, g2):
        n = 0
        for a, b in zip(g1, g2):
            if a is b:
                n += 1
            else:
                break
        return n

    def merge_domains(self, s1, s2):
        """s1 absorbs s2 (guards are or-ed by the caller): domains become unions, every variable of the diverging
        conjuncts is handed to the solver from now on"""
        if not self.feas:
            return
        n = self._common(s1.guard, s2.guard)
        mv = set(s1.mvars) | set(s2.mvars)
        for c in s1.guard[n:] + s2.guard[n:]:
            if not isinstance(c, z3.ExprRef):
                continue
            for v in domains.free_vars(c):
                if v is not None:
                    mv.add(v)
        s1.mvars = frozenset(mv)
        d = {}
        for v in set(s1.dom) | set(s2.dom):
            d[v] = s1.dom.get(v, domains.FULL) | s2.dom.get(v, domains.FULL)
        s1.dom = d

    def or_guards(self, g1, g2):
        n = self._common(g1, g2)
        r1, r2 = g1[n:], g2[n:]
        if not r1 or not r2:
            return g1[:n]
        d = simp_bool(Or(mk_and(r1), mk_and(r2)))
        if d is True:
            return g1[:n]
        return g1[:n] + (d,)

    # ------------------------------------------------------------------ forking
    def feasible_alts(self, st, alts):
        """alts: [(cond, payload)].  Returns [(state, payload)] for the feasible ones; the first
        feasible alternative reuses st, the others get forks."""
        live = []
        for cond, pay in alts:
            if isinstance(cond, bool):
                c = cond
            elif self.feas and domains.structure(cond)[0] in ('atom', 'const'):
                c = cond      # decided from the byte domains below; no need to simplify
            else:
                c = simp_bool(cond)
            if c is False:
                continue
            live.append((c, pay))
        if not live:
            return []
        if len(live) == 1 and live[0][0] is True:
            return [(st, live[0][1])]
        out = []   # (cond to add or True, model, payload, domain refinement or None)
        if not self.feas:
            for c, pay in live:
                out.append((c, None, pay, None))
        else:
            pend = []
            for c, pay in live:
                if c is True:
                    out.append((c, st.model, pay, None))
                    continue
                r = domains.reduce(domains.structure(c), st.dom)
                if r is False:
                    self.ctx.stats['dom_infeasible'] += 1
                    continue
                if r is True:
                    self.ctx.stats['dom_implied'] += 1
                    out.append((True, st.model, pay, None))
                    continue
                if r[0] == 'conj' and not (st.mvars and (set(r[1]) & st.mvars)):
                    self.ctx.stats['dom_decided'] += 1
                    m = st.model if (st.model is not None and eval_bool(st.model, c) is True) else None
                    out.append((c, m, pay, r[1]))
                    continue
                pend.append((c, pay, r[1] if r[0] == 'conj' else None))
            witnessed = None
            if st.model is not None:
                for i, (c, pay, ref) in enumerate(pend):
                    if eval_bool(st.model, c) is True:
                        witnessed = i
                        break
            for i, (c, pay, ref) in enumerate(pend):
                if i == witnessed:
                    self.ctx.stats['witnessed'] += 1
                    out.append((c, st.model, pay, ('mv', ref)))
                else:
                    m = self.ctx.check(st.guard + (c,))
                    if m is not None:
                        out.append((c, m, pay, ('mv', ref)))
        res = []
        for j, (c, m, pay, ref) in enumerate(out):
            if j == len(out) - 1:
                s2 = st
                if c is not True:
                    st.guard = st.guard + (c,)
                st.model = m
            else:
                self.stats['forks'] += 1
                s2 = st.fork(c, m)
            if type(ref) is tuple and ref[0] == 'mv':
                s2.mvars = s2.mvars | frozenset(v for v in domains.free_vars(c) if v is not None)
                if ref[1]:
                    s2.dom.update(ref[1])      # the condition is in the guard: narrowing the domains stays sound
            elif ref:
                s2.dom.update(ref)
            res.append((s2, pay))
        return res

    # ------------------------------------------------------------------ integer helpers
    def to_index(self, i, it):
        """normalise an index value to a python int or a 64-bit term"""
        if not isinstance(i, z3.ExprRef):
            return i
        w = i.size()
        if w == 64:
            return i
        ii = self.prog.intinfo(it)
        return SignExt(64 - w, i) if (ii and ii[1]) else ZeroExt(64 - w, i)

    def binop(self, tok, x, y, xt, yt, rt):
        P = self.prog
        ii = P.intinfo(xt)
        if ii:
            w, s = ii
            sx, sy = isinstance(x, z3.ExprRef), isinstance(y, z3.ExprRef)
            if tok in ('<<', '>>'):
                return self.shift(tok, x, y, w, s, yt)
            if not sx and not sy:
                if tok == '+': return norm(x + y, w, s)
                if tok == '-': return norm(x - y, w, s)
                if tok == '*': return norm(x * y, w, s)
                if tok == '==': return x == y
                if tok == '!=': return x != y
                if tok == '<': return x < y
                if tok == '<=': return x <= y
                if tok == '>': return x > y
                if tok == '>=': return x >= y
                if tok == '&': return norm(x & y, w, s)
                if tok == '|': return norm(x | y, w, s)
                if tok == '^': return norm(x ^ y, w, s)
                if tok == '&^': return norm(x & ~y, w, s)
                if tok in ('/', '%'):
                    if y == 0:
                        raise GoPanic('integer divide by zero')
                    q = abs(x) // abs(y)
                    if (x < 0) != (y < 0):
                        q = -q
                    if tok == '/':
                        return norm(q, w, s)
                    return norm(x - q * y, w, s)
                raise Unsupported('binop ' + tok)
            a, b = tobv(x, w), tobv(y, w)
            if tok == '+': return a + b
            if tok == '-': return a - b
            if tok == '*': return a * b
            if tok == '==': return a == b
            if tok == '!=': return a != b
            if tok == '<': return (a < b) if s else ULT(a, b)
            if tok == '<=': return (a <= b) if s else ULE(a, b)
            if tok == '>': return (a > b) if s else UGT(a, b)
            if tok == '>=': return (a >= b) if s else UGE(a, b)
            if tok == '&': return a & b
            if tok == '|': return a | b
            if tok == '^': return a ^ b
            if tok == '&^': return a & ~b
            if tok == '/':
                return ('divcheck', b, (a / b) if s else UDiv(a, b))
            if tok == '%':
                return ('divcheck', b, SRem(a, b) if s else URem(a, b))
            raise Unsupported('binop ' + tok)
        bn = P.basicname(xt)
        if bn in ('string', 'untyped string'):
            if tok == '+':
                return Str(x + y)
            if tok in ('==', '!='):
                r = self.str_eq(x, y)
                return r if tok == '==' else mk_not(r)
            if tok in ('<', '<=', '>', '>='):
                if concrete_str(x) and concrete_str(y):
                    bx, by = bytes(x), bytes(y)
                    return {'<': bx < by, '<=': bx <= by, '>': bx > by, '>=': bx >= by}[tok]
                lt = self.str_lt(x, y)
                eq = self.str_eq(x, y)
                if tok == '<': return lt
                if tok == '<=': return mk_or([lt, eq])
                if tok == '>': return mk_not(mk_or([lt, eq]))
                return mk_not(lt)
            raise Unsupported('string binop ' + tok)
        if bn in ('bool', 'untyped bool'):
            if not is_sym(x) and not is_sym(y):
                return (x == y) if tok == '==' else (x != y)
            return (tobool(x) == tobool(y)) if tok == '==' else (tobool(x) != tobool(y))
        if bn in ('float64', 'float32', 'untyped float'):
            if is_sym(x) or is_sym(y):
                raise Unsupported('symbolic float')
            return {'+': lambda: x + y, '-': lambda: x - y, '*': lambda: x * y, '/': lambda: x / y,
                    '==': lambda: x == y, '!=': lambda: x != y, '<': lambda: x < y, '<=': lambda: x <= y,
                    '>': lambda: x > y, '>=': lambda: x >= y}[tok]()
        k = P.kind(xt)
        if tok in ('==', '!='):
            r = self.value_eq(x, y, xt)
            return r if tok == '==' else mk_not(r)
        raise Unsupported('binop %s on %s' % (tok, xt))

    def shift(self, tok, x, y, w, s, yt):
        yi = self.prog.intinfo(yt)
        if not is_sym(x) and not is_sym(y):
            if y < 0:
                raise GoPanic('negative shift amount')
            if tok == '<<':
                return norm(x << y, w, s) if y < 4096 else 0
            return norm(x >> y, w, s) if y < 4096 else (-1 if (s and x < 0) else 0)
        a = tobv(x, w)
        if is_sym(y):
            yw = y.size()
            if yw < w:
                b = ZeroExt(w - yw, y)
                big = False
            elif yw > w:
                b = Extract(w - 1, 0, y)
                big = UGE(y, bvval(w, yw))
            else:
                b = y
                big = False
            big = mk_or([big, UGE(b, bvval(w, w))])
        else:
            if y < 0:
                raise GoPanic('negative shift amount')
            b = bvval(min(y, w), w)
            big = y >= w
        if tok == '<<':
            r = a << b
            zero = bvval(0, w)
        else:
            r = (a >> b) if s else LShR(a, b)
            zero = (a >> bvval(w - 1, w)) if s else bvval(0, w)
        if big is False:
            return r
        if big is True:
            return zero
        return If(big, zero, r)

    def str_eq(self, x, y):
        if len(x) != len(y):
            return False
        cs = []
        for a, b in zip(x, y):
            sa, sb = isinstance(a, z3.ExprRef), isinstance(b, z3.ExprRef)
            if not sa and not sb:
                if a != b:
                    return False
            elif sa and sb and a.eq(b):
                continue
            else:
                cs.append(tobv(a, 8) == tobv(b, 8))
        if not cs:
            return True
        return cs[0] if len(cs) == 1 else And(*cs)

    def str_lt(self, x, y):
        # lexicographic x < y
        res = len(x) < len(y)
        n = min(len(x), len(y))
        for i in range(n - 1, -1, -1):
            a, b = tobv(x[i], 8), tobv(y[i], 8)
            res = If(ULT(a, b), True, If(UGT(a, b), False, tobool(res)))
        return simp_bool(res) if is_sym(res) else res

    def value_eq(self, x, y, t=None):
        """Go == on comparable values; returns bool or term"""
        if x is None or y is None:
            return x is None and y is None
        sx, sy = isinstance(x, z3.ExprRef), isinstance(y, z3.ExprRef)
        if sx or sy:
            e = x if sx else y
            if z3.is_bool(e):
                return tobool(x) == tobool(y)
            return tobv(x, e.size()) == tobv(y, e.size())
        tx = type(x)
        if tx is Str and type(y) is Str:
            return self.str_eq(x, y)
        if tx in (bool, int, float):
            return x == y
        if tx is Iface:
            if type(y) is not Iface or x.t != y.t:
                return False
            return self.value_eq(x.v, y.v, x.t)
        if tx in (Struct, Arr):
            if type(y) is not tx or len(x) != len(y):
                return False
            return mk_and([self.value_eq(a, b) for a, b in zip(x, y)])
        if tx in (Ptr, Slice, MapRef, Closure, Opaque, BoundMethod):
            return same(x, y)
        raise Unsupported('== on %r' % (tx,))

    def convert(self, fr, ins, v):
        P = self.prog
        xt, rt = ins['xt'], ins['type']
        a, b = P.intinfo(xt), P.intinfo(rt)
        if a and b:
            (wa, sa), (wb, sb) = a, b
            if not isinstance(v, z3.ExprRef):
                return norm(v, wb, sb)
            if wb == wa:
                return v
            if wb < wa:
                return Extract(wb - 1, 0, v)
            return SignExt(wb - wa, v) if sa else ZeroExt(wb - wa, v)
        rk, xk = P.kind(rt), P.kind(xt)
        if a and P.is_string(rt):
            return ('alts', [(c, s) for c, s in self.encode_rune(v, a)])
        if P.is_string(xt) and rk == 'slice':
            et = P.elem(rt)
            ei = P.intinfo(et)
            if ei and ei[0] == 8:
                return self.new_slice(fr.st, et, tuple(v))
            if ei and ei[0] == 32:
                if not concrete_str(v):
                    raise Unsupported('[]rune(symbolic string)')
                rs = [ord(ch) for ch in bytes(v).decode('utf-8', errors='replace')]
                return self.new_slice(fr.st, et, rs)
        if xk == 'slice' and P.is_string(rt):
            ei = P.intinfo(P.elem(xt))
            cells = self.slice_cells(fr.st, v)
            if ei and ei[0] == 8:
                return Str(cells)
            if ei and ei[0] == 32:
                acc = [(True, ())]
                for r in cells:
                    nxt = []
                    for c0, s0 in acc:
                        for c1, s1 in self.encode_rune(r, ei):
                            nxt.append((mk_and([c0, c1]), s0 + tuple(s1)))
                    acc = nxt
                    if len(acc) > 64:
                        raise Unsupported('string([]rune) with too many cases')
                return ('alts', [(c, Str(s)) for c, s in acc])
        if P.is_string(xt) and P.is_string(rt):
            return v
        fa = P.basicname(xt) in ('float64', 'float32', 'untyped float')
        fb = P.basicname(rt) in ('float64', 'float32', 'untyped float')
        if (a or fa) and (b or fb):
            if is_sym(v):
                raise Unsupported('symbolic float conversion')
            if fb:
                return float(v)
            return norm(int(v), b[0], b[1])
        if xk == rk:
            return v
        raise Unsupported('convert %s -> %s' % (xt, rt))

    def encode_rune(self, r, ii):
        """UTF-8 encoding of integer r (type info ii) -> [(cond, Str)]"""
        BAD = Str(b'\xef\xbf\xbd')
        if not isinstance(r, z3.ExprRef):
            if r < 0 or r > 0x10ffff or 0xd800 <= r <= 0xdfff:
                return [(True, BAD)]
            return [(True, Str(chr(r).encode('utf-8')))]
        w, s = ii
        b = Extract(7, 0, r)
        one = Str([b])
        lo = ULT(r, bvval(0x80, w))
        if w == 8:
            two = Str([bvval(0xC0, 8) | LShR(b, 6), bvval(0x80, 8) | (b & 0x3F)])
            return [(lo, one), (Not(lo), two)]

        def ex(sh, mask, lead):
            return bvval(lead, 8) | (Extract(7, 0, LShR(r, sh)) & mask)
        two = Str([ex(6, 0x1F, 0xC0), ex(0, 0x3F, 0x80)])
        c2 = And(UGE(r, bvval(0x80, w)), ULT(r, bvval(0x800, w)))
        if w == 16 and not s:
            pass
        three = Str([ex(12, 0x0F, 0xE0), ex(6, 0x3F, 0x80), ex(0, 0x3F, 0x80)])
        sur = And(UGE(r, bvval(0xD800, w)), ULE(r, bvval(0xDFFF, w)))
        c3 = And(UGE(r, bvval(0x800, w)), ULT(r, bvval(0x10000, w)) if w > 16 else True, Not(sur))
        alts = [(lo, one), (c2, two), (c3, three)]
        if w > 16:
            four = Str([ex(18, 0x07, 0xF0), ex(12, 0x3F, 0x80), ex(6, 0x3F, 0x80), ex(0, 0x3F, 0x80)])
            c4 = And(UGE(r, bvval(0x10000, w)), ULE(r, bvval(0x10FFFF, w)))
            alts.append((c4, four))
            alts.append((Or(sur, UGT(r, bvval(0x10FFFF, w))), BAD))
        else:
            alts.append((sur, BAD))
        return alts

    def decode_rune(self, s, pos):
        """UTF-8 decoding at s[pos:] -> [(cond, rune, width)] (complete case split)"""
        b0 = s[pos]
        n = len(s) - pos
        if not isinstance(b0, z3.ExprRef) and b0 < 0x80:
            return [(True, b0, 1)]
        if all(not isinstance(x, z3.ExprRef) for x in s[pos:pos + 4]):
            bs = bytes(s[pos:pos + 4])
            for k in (1, 2, 3, 4):
                try:
                    ch = bs[:k].decode('utf-8')
                    if len(ch) == 1:
                        return [(True, ord(ch), k)]
                except UnicodeDecodeError:
                    pass
            return [(True, 0xFFFD, 1)]
        B = [tobv(x, 8) for x in s[pos:pos + 4]]

        def rng(x, lo, hi):
            return And(UGE(x, bvval(lo, 8)), ULE(x, bvval(hi, 8)))

        def z(x):
            return ZeroExt(24, x)
        alts = []
        c1 = ULT(B[0], bvval(0x80, 8))
        alts.append((c1, z(B[0]), 1))
        valid = [c1]
        if n >= 2:
            c2 = And(rng(B[0], 0xC2, 0xDF), rng(B[1], 0x80, 0xBF))
            alts.append((c2, (z(B[0] & 0x1F) << 6) | z(B[1] & 0x3F), 2))
            valid.append(c2)
        if n >= 3:
            c3 = And(rng(B[2], 0x80, 0xBF),
                     Or(And(B[0] == 0xE0, rng(B[1], 0xA0, 0xBF)),
                        And(B[0] == 0xED, rng(B[1], 0x80, 0x9F)),
                        And(Or(rng(B[0], 0xE1, 0xEC), rng(B[0], 0xEE, 0xEF)), rng(B[1], 0x80, 0xBF))))
            alts.append((c3, (z(B[0] & 0x0F) << 12) | (z(B[1] & 0x3F) << 6) | z(B[2] & 0x3F), 3))
            valid.append(c3)
        if n >= 4:
            c4 = And(rng(B[2], 0x80, 0xBF), rng(B[3], 0x80, 0xBF),
                     Or(And(B[0] == 0xF0, rng(B[1], 0x90, 0xBF)),
                        And(B[0] == 0xF4, rng(B[1], 0x80, 0x8F)),
                        And(rng(B[0], 0xF1, 0xF3), rng(B[1], 0x80, 0xBF))))
            alts.append((c4, (z(B[0] & 0x07) << 18) | (z(B[1] & 0x3F) << 12) | (z(B[2] & 0x3F) << 6) | z(B[3] & 0x3F), 4))
            valid.append(c4)
        alts.append((Not(Or(*valid)) if len(valid) > 1 else Not(valid[0]), 0xFFFD, 1))
        return alts

    # ------------------------------------------------------------------ calls
    def call(self, fid, args, st, binds=()):
        """run function fid; returns a list of Outcome"""
        m = self.models.get(fid)
        if m is not None:
            r = self.call_model(m, fid, args, st)
            if r is not FALLBACK:
                return r
        f = self.prog.funcs.get(fid)
        if f is None:
            raise Unsupported('function not exported: ' + fid)
        if 'blocks' not in f:
            if f.get('name') == 'init':
                return [Outcome(st, 'ret', Tup())]
            raise Unsupported('no body and no model for ' + fid)
        if self.lenient and f.get('name') == 'init' and f.get('synthetic'):
            self.inited.add(f.get('pkg'))
        return self.run(fid, f, args, st, binds)

    def resolve(self, st, r):
        """expand a (possibly nested) alternatives result into outcomes"""
        if type(r) is tuple and len(r) == 2:
            if r[0] == 'alts':
                outs = []
                for st2, pay in self.feasible_alts(st, r[1]):
                    try:
                        v = pay(st2) if callable(pay) else pay
                    except GoPanic as p:
                        outs.append(Outcome(st2, 'panic', p.msg))
                        continue
                    outs.extend(self.resolve(st2, v))
                return outs
            if r[0] == 'outcomes':
                return r[1]
        return [Outcome(st, 'ret', r)]

    def call_model(self, m, fid, args, st):
        try:
            r = m(self, st, args)
        except GoPanic as p:
            return [Outcome(st, 'panic', p.msg)]
        if r is FALLBACK:
            return FALLBACK
        return self.resolve(st, r)

    def call_value(self, fv, args, st):
        """call a func value (Closure / BoundMethod)"""
        if fv is None:
            return [Outcome(st, 'panic', 'call of nil func')]
        if type(fv) is Closure:
            return self.call(fv.fn, args, st, fv.binds)
        if type(fv) is BoundMethod:
            return self.call(fv.fn, [fv.recv] + list(args), st)
        raise Unsupported('call of %r' % (fv,))

    def invoke(self, recv, method, args, st):
        if recv is None:
            return [Outcome(st, 'panic', 'nil interface method call ' + method)]
        if type(recv) is not Iface:
            raise Unsupported('invoke on %r' % (recv,))
        key = (recv.t, method)
        m = self.models.get(key)
        if m is not None:
            return self.call_model(m, key, [recv.v] + list(args), st)
        fn = self.prog.method(recv.t, method)
        if fn is None:
            raise Unsupported('no method %s on dynamic type %s' % (method, recv.t))
        return self.call(fn, [recv.v] + list(args), st)

    def builtin(self, fr, name, args, ins):
        st = fr.st
        P = self.prog
        if name == 'len':
            v = args[0]
            if v is None:
                return 0
            tv = type(v)
            if tv is Str:
                return len(v)
            if tv is Slice:
                return v.len
            if tv is MapRef:
                return len(self.heapget(st, v.obj))
            if tv is Arr:
                return len(v)
            if tv is Ptr:
                return len(self.load(st, v))
            raise Unsupported('len of %r' % (tv,))
        if name == 'cap':
            v = args[0]
            if v is None:
                return 0
            if type(v) is Slice:
                return v.cap
            raise Unsupported('cap')
        if name == 'append':
            s, t = args
            tcells = self.slice_cells(st, t)
            if not tcells:
                if s is None and t is not None and type(t) is Slice:
                    pass
                return s
            et = P.elem(ins['type'])
            if s is None:
                return self.new_slice(st, et, tcells, cap=max(len(tcells), 1))
            n = s.len + len(tcells)
            if n <= s.cap:
                self.slice_store(st, s, s.len, tcells)
                return Slice(s.obj, s.path, s.off, n, s.cap)
            old = s.cap
            if old < 256:
                nc = max(n, 2 * old)
            else:
                nc = max(n, old + (old + 3 * 256) // 4)
            return self.new_slice(st, et, self.slice_cells(st, s) + tuple(tcells), cap=nc)
        if name == 'copy':
            d, s = args
            sc = self.slice_cells(st, s)
            if d is None:
                return 0
            n = min(d.len, len(sc))
            self.slice_store(st, d, 0, sc[:n])
            return n
        if name == 'delete':
            m, k = args
            if m is None:
                return None
            ents = self.heapget(st, m.obj)
            out = []
            for (kk, vv) in ents:
                e = self.value_eq(kk, k)
                if e is True:
                    continue
                if e is not False:
                    raise Unsupported('delete with symbolic key')
                out.append((kk, vv))
            st.heap[m.obj] = MapVal(out)
            return None
        if name == 'panic':
            raise GoPanic('panic: ' + self.describe(st, args[0]))
        if name in ('print', 'println'):
            return None
        if name in ('min', 'max'):
            a, b = args
            if is_sym(a) or is_sym(b):
                raise Unsupported('symbolic min/max')
            return min(a, b) if name == 'min' else max(a, b)
        if name == 'ssa:wrapnilchk':
            if args[0] is None:
                raise GoPanic('value method called through nil pointer')
            return args[0]
        if name == 'recover':
            return None
        raise Unsupported('builtin ' + name)

    def describe(self, st, v):
        try:
            if type(v) is Iface:
                if type(v.v) is Str and concrete_str(v.v):
                    return bytes(v.v).decode('utf-8', 'replace')
                if type(v.v) is Ptr:
                    x = self.load(st, v.v)
                    if type(x) is Struct and x and type(x[0]) is Str and concrete_str(x[0]):
                        return bytes(x[0]).decode('utf-8', 'replace')
                return 'value of type ' + v.t
        except Exception:
            pass
        return str(type(v))

    # ------------------------------------------------------------------ the activation loop
    def run(self, fid, f, args, st, binds):
        P = self.prog
        info = P.cfginfo(fid)
        B = f['blocks']
        pos = info['pos']
        loops_of = info['loops_of']
        loops = info['loops']
        cap = self.unwind_for.get(fid, self.unwind)
        regs = {}
        for p, a in zip(f['params'], args):
            regs[p['n']] = a
        for p, a in zip(f['freevars'], binds):
            regs[p['n']] = a
        outcomes = []
        merge = self.merge
        seq = itertools.count()
        work = []
        self.depth += 1
        if self.depth > 400:
            raise Unsupported('call depth exceeded in ' + fid)

        def key(fr):
            k = []
            it = fr.iters
            for h in loops_of[fr.block]:
                k.append(pos[h])
                k.append(it.get(h, 0))
            k.append(pos[fr.block])
            k.append(fr.pc)
            return tuple(k)

        def push(fr):
            self.stats['states'] += 1
            if merge:
                heapq.heappush(work, (key(fr), next(seq), fr))
            else:
                work.append(fr)

        def transfer(fr, to):
            frm = fr.block
            blk = B[to]
            np = blk['nphi']
            if np:
                pidx = blk['preds'].index(frm)
                nv = [(ins['name'], self.operand(fr, ins['edges'][pidx])) for ins in blk['instrs'][:np]]
                for n_, v_ in nv:
                    fr.regs[n_] = v_
            lo = loops_of[to]
            if lo or fr.iters:
                it = {}
                lf = loops_of[frm]
                for h in lo:
                    if h in lf:
                        c = fr.iters.get(h, 0)
                        if to == h and frm in loops[h]:
                            c += 1
                            if not self.feas and self.backedge_check and c > 1:
                                # merged regime: the solver decides whether another iteration exists
                                if fr.st.chk is not fr.st.guard:
                                    if self.ctx.check(fr.st.guard) is None:
                                        return
                                    fr.st.chk = fr.st.guard
                            if c > cap:
                                outcomes.append(Outcome(fr.st, 'unwind', '%s: loop at block %d exceeds %d iterations' % (fid, h, cap)))
                                return
                        it[h] = c
                    else:
                        it[h] = 0
                fr.iters = it
            fr.block = to
            fr.pc = np
            push(fr)

        push(Frame(st, regs, 0, 0, {}, []))
        try:
            while work:
                if merge:
                    k, _, fr = heapq.heappop(work)
                    if work and work[0][0] == k:
                        group = [fr]
                        while work and work[0][0] == k:
                            group.append(heapq.heappop(work)[2])
                        group = self.merge_frames(group, info)
                        for g in group[1:]:
                            heapq.heappush(work, (k, next(seq), g))
                        fr = group[0]
                else:
                    fr = work.pop()
                self.exec_block(fr, fid, B, outcomes, push, transfer)
        finally:
            self.depth -= 1
        return self.merge_returns(fid, f, outcomes)

    def merge_frames(self, group, info):
        regt = info['regt']
        merged = []
        bysig = {}
        for fr in group:
            done = False
            sig = () if self.merge_ints else tuple(sorted((k_, v_) for k_, v_ in fr.regs.items() if type(v_) is int))
            cands = bysig.setdefault(sig, [])
            for m in cands:
                try:
                    if len(m.defers) != len(fr.defers):
                        raise Unmergeable('defers')
                    c, nh = self.merge_states(m.st, fr.st)
                    cb = c
                    nr = {}
                    for r, a in m.regs.items():
                        if r not in fr.regs:
                            continue
                        b = fr.regs[r]
                        nr[r] = a if a is b else self.merge_value(cb, a, b, regt.get(r))
                    m.regs = nr
                    m.st.heap = nh
                    self.merge_domains(m.st, fr.st)
                    m.st.guard = self.or_guards(m.st.guard, fr.st.guard)
                    m.st.model = m.st.model or fr.st.model
                    self.stats['merges'] += 1
                    done = True
                    break
                except Unmergeable:
                    continue
            if not done:
                merged.append(fr)
                cands.append(fr)
                if len(merged) > 1:
                    self.stats['unmergeable'] += 1
        return merged

    def merge_returns(self, fid, f, outcomes):
        if len(outcomes) < 2:
            return outcomes
        rets = [o for o in outcomes if o.kind == 'ret']
        if len(rets) < 2:
            return outcomes
        others = [o for o in outcomes if o.kind != 'ret']
        rts = self.prog.results(fid)
        if not self.merge:
            # enumerating regime: only fold scalar results of side-effect free calls
            if len(rets) > 16:
                return outcomes
            for t in rts:
                if not (self.prog.intinfo(t) or self.prog.is_bool(t)):
                    return outcomes
        sigres = self.prog.types[f['sig']]['results']
        merged = []
        old = self.merge_ints
        self.merge_ints = True
        try:
            return self._merge_returns(rets, rts, sigres) + others
        finally:
            self.merge_ints = old

    def _merge_returns(self, rets, rts, sigres):
        merged = []
        for o in rets:
            done = False
            for i, m in enumerate(merged):
                try:
                    if not self.merge:
                        h1, h2 = m.st.heap, o.st.heap
                        if len(h1) != len(h2):
                            raise Unmergeable('heap')
                        for k_, v_ in h1.items():
                            if h2.get(k_) is not v_:
                                raise Unmergeable('heap')
                        if not aux_same(m.st.aux, o.st.aux):
                            raise Unmergeable('aux')
                        c = LazyCond(m.st.guard[self._common(m.st.guard, o.st.guard):])
                        nh = h1
                    else:
                        c, nh = self.merge_states(m.st, o.st)
                    if len(rts) == 1:
                        nv = self.merge_value(c, m.val, o.val, rts[0])
                    else:
                        nv = self.merge_value(c, m.val, o.val, sigres)
                    m.st.heap = nh
                    self.merge_domains(m.st, o.st)
                    m.st.guard = self.or_guards(m.st.guard, o.st.guard)
                    m.st.model = m.st.model or o.st.model
                    merged[i] = Outcome(m.st, 'ret', nv)
                    self.stats['ret_merges'] += 1
                    done = True
                    break
                except Unmergeable:
                    continue
            if not done:
                merged.append(o)
        return merged

    def exec_block(self, fr, fid, B, outcomes, push, transfer):
        P = self.prog
        st = fr.st
        regs = fr.regs
        blk = B[fr.block]
        instrs = blk['instrs']
        pc = fr.pc
        self.stats['blocks'] += 1
        operand = self.operand
        while True:
            ins = instrs[pc]
            op = ins['op']
            self.stats['instrs'] += 1
            res = None
            try:
                if op == 'BinOp':
                    res = self.binop(ins['tok'], operand(fr, ins['x']), operand(fr, ins['y']), ins['xt'], ins['yt'], ins['type'])
                    if type(res) is tuple and res and res[0] == 'divcheck':
                        _, d, val = res
                        zero = (d == bvval(0, d.size()))
                        res = ('alts', [(zero, lambda s_: (_ for _ in ()).throw(GoPanic('integer divide by zero'))), (Not(zero), val)])
                elif op == 'UnOp':
                    x = operand(fr, ins['x'])
                    tok = ins['tok']
                    if tok == '*':
                        res = self.load(st, x)
                        if type(res) is Opaque and res.kind == 'poison' and not self.lenient:
                            raise Unsupported('read of a value the package initialiser could not compute: ' + res.data)
                    elif tok == '!':
                        res = (not x) if not isinstance(x, z3.ExprRef) else Not(x)
                    elif tok == '-':
                        ii = P.intinfo(ins['type'])
                        if ii:
                            res = norm(-x, ii[0], ii[1]) if not isinstance(x, z3.ExprRef) else -x
                        else:
                            res = -x
                    elif tok == '^':
                        ii = P.intinfo(ins['type'])
                        res = norm(~x, ii[0], ii[1]) if not isinstance(x, z3.ExprRef) else ~x
                    else:
                        raise Unsupported('unop ' + tok)
                elif op == 'Call':
                    c = ins['call']
                    cv = c['value']
                    args = [operand(fr, a) for a in c['args']]
                    if cv['k'] == 'builtin':
                        res = self.builtin(fr, cv['n'], args, ins)
                    else:
                        if c.get('invoke'):
                            outs = self.invoke(operand(fr, cv), c['method'], args, st)
                        elif 'static' in c:
                            fv = operand(fr, cv)
                            outs = self.call(c['static'], args, st, fv.binds if type(fv) is Closure else ())
                        else:
                            outs = self.call_value(operand(fr, cv), args, st)
                        nm = ins['name']
                        if len(outs) == 1 and outs[0].kind == 'ret':
                            st = fr.st = outs[0].st
                            regs[nm] = outs[0].val
                            pc += 1
                            continue
                        fr.pc = pc + 1
                        nlive = sum(1 for o in outs if o.kind == 'ret')
                        for o in outs:
                            if o.kind == 'ret':
                                nlive -= 1
                                f2 = fr if nlive == 0 else fr.copy(o.st)
                                f2.st = o.st
                                f2.regs[nm] = o.val
                                push(f2)
                            else:
                                outcomes.append(o)
                        return
                elif op == 'Phi':
                    raise Unsupported('phi in block body')
                elif op == 'Jump':
                    transfer(fr, blk['succs'][0])
                    return
                elif op == 'If':
                    c = operand(fr, ins['cond'])
                    if type(c) is Opaque:
                        raise Unsupported('branch on uncomputable value: ' + str(c.data))
                    if isinstance(c, z3.ExprRef) and not (self.feas and domains.structure(c)[0] == 'atom'):
                        c = simp_bool(c)
                    if c is True:
                        transfer(fr, blk['succs'][0])
                    elif c is False:
                        transfer(fr, blk['succs'][1])
                    else:
                        fr.pc = pc
                        alts = self.feasible_alts(st, [(c, 0), (Not(c), 1)])
                        for j, (st2, side) in enumerate(alts):
                            f2 = fr if st2 is st else fr.copy(st2)
                            transfer(f2, blk['succs'][side])
                    return
                elif op == 'Return':
                    rs = ins['results']
                    if 'reload' in ins:
                        vals = [operand(fr, r) for r in rs]
                        for ri, addr in ins['reload']:
                            vals[ri] = self.load(st, operand(fr, addr))
                        v = vals[0] if len(rs) == 1 else Tup(vals)
                    elif len(rs) == 1:
                        v = operand(fr, rs[0])
                    else:
                        v = Tup(operand(fr, r) for r in rs)
                    if self.depth == 1:
                        k = (fid, ins.get('pos', '?'))
                        self.ret_sites[k] = self.ret_sites.get(k, 0) + 1
                    outcomes.append(Outcome(st, 'ret', v))
                    return
                elif op == 'Alloc':
                    res = Ptr(self.alloc(st, ins['elem']), ())
                elif op == 'FieldAddr':
                    x = operand(fr, ins['x'])
                    if x is None:
                        raise GoPanic('nil pointer dereference (field address)')
                    res = Ptr(x.obj, x.path + (ins['field'],))
                elif op == 'Field':
                    res = operand(fr, ins['x'])[ins['field']]
                elif op == 'IndexAddr':
                    res = self.index_addr(fr, ins)
                elif op == 'Index':
                    res = self.index_val(fr, ins)
                elif op == 'Store':
                    self.store(st, operand(fr, ins['addr']), operand(fr, ins['val']))
                    pc += 1
                    continue
                elif op == 'Slice':
                    res = self.slice_op(fr, ins)
                elif op == 'Convert':
                    res = self.convert(fr, ins, operand(fr, ins['x']))
                elif op == 'ChangeType' or op == 'ChangeInterface':
                    res = operand(fr, ins['x'])
                elif op == 'MakeInterface':
                    xt = ins['xt']
                    if P.kind(xt) == 'interface':
                        res = operand(fr, ins['x'])
                    else:
                        res = Iface(xt, operand(fr, ins['x']))
                elif op == 'Extract':
                    res = operand(fr, ins['x'])[ins['index']]
                elif op == 'TypeAssert':
                    res = self.type_assert(fr, ins)
                elif op == 'MakeClosure':
                    res = Closure(ins['fn']['id'], tuple(operand(fr, b) for b in ins['bindings']))
                elif op == 'MakeMap':
                    res = MapRef(self.alloc(st, ins['type'], MapVal()))
                elif op == 'MakeSlice':
                    n = operand(fr, ins['len'])
                    cp = operand(fr, ins['cap'])
                    if is_sym(n) or is_sym(cp):
                        raise Unsupported('make([]T, symbolic)')
                    if n < 0 or cp < n:
                        raise GoPanic('makeslice: len out of range')
                    et = P.elem(ins['type'])
                    res = self.new_slice(st, et, (self.zero(et),) * n, cap=cp)
                elif op == 'Lookup':
                    res = self.lookup(fr, ins)
                elif op == 'MapUpdate':
                    r = self.map_update(fr, ins)
                    if r is None:
                        pc += 1
                        continue
                    res = r
                    ins = dict(ins)
                    ins['name'] = '_'
                elif op == 'Range':
                    res = self.range_op(fr, ins)
                elif op == 'Next':
                    res = self.next_op(fr, ins)
                elif op == 'Defer':
                    c = ins['call']
                    fr.defers.append((c, [operand(fr, a) for a in c['args']], operand(fr, c['value']) if c['value']['k'] != 'builtin' else ('builtin', c['value']['n'])))
                    pc += 1
                    continue
                elif op == 'RunDefers':
                    if not fr.defers:
                        pc += 1
                        continue
                    c, args, fv = fr.defers.pop()
                    if c['value']['k'] == 'builtin':
                        self.builtin(fr, c['value']['n'], args, ins)
                        continue
                    if c.get('invoke'):
                        outs = self.invoke(fv, c['method'], args, st)
                    else:
                        outs = self.call_value(fv, args, st)
                    if len(outs) == 1 and outs[0].kind == 'ret':
                        st = fr.st = outs[0].st
                        continue
                    fr.pc = pc
                    nlive = sum(1 for o in outs if o.kind == 'ret')
                    for o in outs:
                        if o.kind == 'ret':
                            nlive -= 1
                            f2 = fr if nlive == 0 else fr.copy(o.st)
                            f2.st = o.st
                            push(f2)
                        else:
                            outcomes.append(o)
                    return
                elif op == 'Panic':
                    raise GoPanic('panic: ' + self.describe(st, operand(fr, ins['x'])))
                elif op == 'Go':
                    raise Unsupported('go statement')
                else:
                    raise Unsupported('instruction ' + op)
            except GoPanic as p:
                outcomes.append(Outcome(st, 'panic', '%s (%s in %s)' % (p.msg, ins.get('pos', '?'), fid)))
                return
            except Unsupported as e:
                if self.lenient and op not in ('Jump', 'If', 'Return'):
                    nm = ins.get('name')
                    if nm:
                        regs[nm] = Opaque('poison', str(e))
                    pc += 1
                    continue
                if not getattr(e, 'located', False):
                    e.args = ('%s [at %s in %s]' % (e.args[0], ins.get('pos', '?'), fid),)
                    e.located = True
                raise
            # ---- assign result / fork on alternatives
            if type(res) is tuple and len(res) == 2 and res[0] == 'alts':
                nm = ins.get('name')
                fr.pc = pc + 1
                outs = self.resolve(st, res)
                nlive = sum(1 for o in outs if o.kind == 'ret')
                for o in outs:
                    if o.kind == 'ret':
                        nlive -= 1
                        f2 = fr if nlive == 0 else fr.copy(o.st)
                        f2.st = o.st
                        if nm:
                            f2.regs[nm] = o.val
                        push(f2)
                    else:
                        outcomes.append(Outcome(o.st, o.kind, '%s (%s in %s)' % (o.val, ins.get('pos', '?'), fid)))
                return
            nm = ins.get('name')
            if nm:
                regs[nm] = res
            pc += 1

    # ------------------------------------------------------------------ compound instructions
    def bounds(self, i, n, what):
        """alternatives splitting on 0 <= i < n for a symbolic 64-bit i"""
        inb = ULT(i, bvval(n, 64))
        return inb

    def index_addr(self, fr, ins):
        st = fr.st
        x = self.operand(fr, ins['x'])
        i = self.to_index(self.operand(fr, ins['index']), ins['it'])
        if x is None:
            if self.prog.kind(ins['xt']) == 'slice':
                if is_sym(i):
                    raise GoPanic('index out of range (nil slice)')
                raise GoPanic('index out of range [%d] with length 0' % i)
            raise GoPanic('nil pointer dereference (index)')
        if type(x) is Slice:
            obj, path, off, n = x.obj, x.path, x.off, x.len
        else:  # pointer to array
            arr = self.load(st, x)
            obj, path, off, n = x.obj, x.path, 0, len(arr)
        if not isinstance(i, z3.ExprRef):
            if not (0 <= i < n):
                raise GoPanic('index out of range [%d] with length %d' % (i, n))
            return Ptr(obj, path + (off + i,))
        inb = ULT(i, bvval(n, 64))

        def bad(s_):
            raise GoPanic('index out of range (symbolic index, length %d)' % n)
        if n == 0:
            raise GoPanic('index out of range with length 0')
        return ('alts', [(Not(inb), bad), (inb, Ptr(obj, path + (SymIdx(i, off, n),)))])

    def index_val(self, fr, ins):
        x = self.operand(fr, ins['x'])
        i = self.to_index(self.operand(fr, ins['index']), ins['it'])
        n = len(x)
        if not isinstance(i, z3.ExprRef):
            if not (0 <= i < n):
                raise GoPanic('index out of range [%d] with length %d' % (i, n))
            return x[i]
        if n == 0:
            raise GoPanic('index out of range with length 0')
        inb = ULT(i, bvval(n, 64))
        et = 'uint8' if type(x) is Str else self.subtype(ins['xt'], 0)
        if type(x) is Str:
            cells = [tobv(c, 8) if False else c for c in x]
            val = self.select(cells, i, None) if all(isinstance(c, z3.ExprRef) for c in cells) else self.select_bytes(cells, i)
        else:
            val = self.select(list(x), i, et)

        def bad(s_):
            raise GoPanic('index out of range (symbolic index, length %d)' % n)
        return ('alts', [(Not(inb), bad), (inb, val)])

    def select_bytes(self, cells, i):
        return self.select([c if isinstance(c, z3.ExprRef) else bvval(c, 8) for c in cells], i, None)

    def concretize(self, st, v, lo, hi, what):
        """alternatives (cond, k) for every k in [lo, hi] the symbolic v can take"""
        w = v.size()
        alts = [((v == bvval(k, w)), k) for k in range(lo, hi + 1)]
        return alts

    def slice_op(self, fr, ins):
        st = fr.st
        x = self.operand(fr, ins['x'])
        lo = self.operand(fr, ins['low']) if ins['low'] else 0
        hi = self.operand(fr, ins['high']) if ins['high'] else None
        mx = self.operand(fr, ins['max']) if ins['max'] else None
        if type(x) is Str:
            n = capx = len(x)
        elif x is None:
            n = capx = 0
        elif type(x) is Slice:
            n, capx = x.len, x.cap
        elif type(x) is Ptr:
            arr = self.load(st, x)
            n = capx = len(arr)
        else:
            raise Unsupported('slice of %r' % (type(x),))
        if is_sym(mx):
            raise Unsupported('symbolic 3-index slice')
        limit = n if type(x) is Str else capx
        if is_sym(lo) or is_sym(hi):
            # concretise the symbolic bounds over their feasible values
            alts = []
            los = [(True, lo)] if not is_sym(lo) else [((lo == bvval(k, lo.size())), k) for k in range(0, limit + 1)]
            for c1, l in los:
                his = [(True, hi)] if not is_sym(hi) else [((hi == bvval(k, hi.size())), k) for k in range(l, limit + 1)]
                for c2, h in his:
                    alts.append((mk_and([c1, c2]), (lambda l=l, h=h: (lambda s_: self.slice_concrete(s_, x, l, h, mx, n, capx)))()))
            covered = mk_or([c for c, _ in alts])

            def bad(s_):
                raise GoPanic('slice bounds out of range (symbolic bounds)')
            alts.append((mk_not(covered), bad))
            return ('alts', alts)
        return self.slice_concrete(st, x, lo, hi, mx, n, capx)

    def slice_concrete(self, st, x, lo, hi, mx, n, capx):
        if type(x) is Str:
            if hi is None:
                hi = n
            if not (0 <= lo <= hi <= n):
                raise GoPanic('slice bounds out of range [%d:%d] with length %d' % (lo, hi, n))
            return Str(x[lo:hi])
        if hi is None:
            hi = n
        if mx is None:
            mx = capx
        if not (0 <= lo <= hi <= mx <= capx):
            raise GoPanic('slice bounds out of range [%d:%d:%d] with capacity %d' % (lo, hi, mx, capx))
        if x is None:
            return None
        if type(x) is Ptr:
            return Slice(x.obj, x.path, lo, hi - lo, mx - lo)
        return Slice(x.obj, x.path, x.off + lo, hi - lo, mx - lo)

    def type_assert(self, fr, ins):
        P = self.prog
        x = self.operand(fr, ins['x'])
        at = ins['asserted']
        ok = False
        val = None
        if x is not None:
            if type(x) is not Iface:
                raise Unsupported('type assertion on %r' % (x,))
            if P.kind(at) == 'interface':
                ok = P.implements(x.t, at)
                val = x
            else:
                ok = (x.t == at)
                val = x.v
        if ins['commaok']:
            if ok:
                return Tup((val, True))
            return Tup((self.zero(at), False))
        if not ok:
            raise GoPanic('interface conversion: %s is not %s' % (x.t if x is not None else 'nil', at))
        return val

    def map_find(self, st, ents, k):
        """alternatives [(cond, index or None)] for the position of key k"""
        alts = []
        pre = []
        for i, (kk, vv) in enumerate(ents):
            e = self.value_eq(kk, k)
            if e is False:
                continue
            if e is True:
                alts.append((mk_and(pre), i))
                return alts
            alts.append((mk_and(pre + [e]), i))
            pre.append(Not(e))
        alts.append((mk_and(pre), None))
        return alts

    def lookup(self, fr, ins):
        st = fr.st
        x = self.operand(fr, ins['x'])
        k = self.operand(fr, ins['index'])
        if type(x) is Str or self.prog.is_string(ins['xt']):
            i = self.to_index(k, ins['it'])
            n = len(x)
            if not isinstance(i, z3.ExprRef):
                if not (0 <= i < n):
                    raise GoPanic('index out of range [%d] with length %d' % (i, n))
                return x[i]
            if n == 0:
                raise GoPanic('index out of range with length 0')
            inb = ULT(i, bvval(n, 64))
            val = self.select_bytes(list(x), i)

            def bad(s_):
                raise GoPanic('string index out of range (symbolic index, length %d)' % n)
            return ('alts', [(Not(inb), bad), (inb, val)])
        et = self.prog.elem(ins['xt'])
        z = self.zero(et)
        commaok = ins['commaok']
        if x is None:
            return Tup((z, False)) if commaok else z
        ents = self.heapget(st, x.obj)
        alts = []
        for c, i in self.map_find(st, ents, k):
            if i is None:
                alts.append((c, Tup((z, False)) if commaok else z))
            else:
                alts.append((c, Tup((ents[i][1], True)) if commaok else ents[i][1]))
        if len(alts) == 1 and alts[0][0] is True:
            return alts[0][1]
        return ('alts', alts)

    def map_update(self, fr, ins):
        st = fr.st
        m = self.operand(fr, ins['map'])
        k = self.operand(fr, ins['key'])
        v = self.operand(fr, ins['value'])
        if m is None:
            raise GoPanic('assignment to entry in nil map')
        if self.track_globals and m.obj in self.base_ids:
            self.global_writes.add('map owned by package-level state (%s)' % OBJTYPE.get(m.obj))
        ents = self.heapget(st, m.obj)
        found = self.map_find(st, ents, k)

        def upd(i):
            def f(s_):
                e = self.heapget(s_, m.obj)
                if i is None:
                    s_.heap[m.obj] = MapVal(e + ((k, v),))
                else:
                    s_.heap[m.obj] = MapVal(e[:i] + ((e[i][0], v),) + e[i + 1:])
                return None
            return f
        if len(found) == 1 and found[0][0] is True:
            upd(found[0][1])(st)
            return None
        return ('alts', [(c, upd(i)) for c, i in found])

    def range_op(self, fr, ins):
        st = fr.st
        x = self.operand(fr, ins['x'])
        if self.prog.is_string(ins['xt']):
            o = self.alloc(st, None, ('striter', x, 0))
            return Ptr(o, ())
        if x is None:
            ents = MapVal()
        else:
            ents = self.heapget(st, x.obj)
        n = len(ents)
        if self.map_orders and n > 1 and (self.map_order_filter is None or self.map_order_filter in ins['xt']):
            import itertools as _it
            if self.map_orders == 'rot1':
                # one rotation per map object and run of the entry point: chosen at the first range over it, kept for
                # the later ones (a reduced exploration for range statements that sit in loops)
                chosen = st.aux.get('maprot', {}).get(x.obj)
                if chosen is not None and chosen < n:
                    order = tuple(range(chosen, n)) + tuple(range(0, chosen))
                    o = self.alloc(st, None, ('mapiter', x, tuple(ents[i][0] for i in order), 0))
                    return Ptr(o, ())

                def mk1(r):
                    def f(s_):
                        d = dict(s_.aux.get('maprot', {}))
                        d[x.obj] = r
                        s_.aux['maprot'] = d
                        order = tuple(range(r, n)) + tuple(range(0, r))
                        o = self.alloc(s_, None, ('mapiter', x, tuple(ents[i][0] for i in order), 0))
                        return Ptr(o, ())
                    return f
                self.stats['map_orders'] += n
                return ('alts', [(True, mk1(r)) for r in range(n)])
            if self.map_orders == 'rot':
                orders = [tuple(range(r, n)) + tuple(range(0, r)) for r in range(n)]
            else:
                if n > 5:
                    raise Unsupported('map permutation over %d entries' % n)
                orders = list(_it.permutations(range(n)))
            def mk(order):
                def f(s_):
                    o = self.alloc(s_, None, ('mapiter', x, tuple(ents[i][0] for i in order), 0))
                    return Ptr(o, ())
                return f
            self.stats['map_orders'] += len(orders)
            return ('alts', [(True, mk(o)) for o in orders])
        o = self.alloc(st, None, ('mapiter', x, tuple(e[0] for e in ents), 0))
        return Ptr(o, ())

    def next_op(self, fr, ins):
        st = fr.st
        it = self.operand(fr, ins['iter'])
        rec = st.heap[it.obj]
        if rec[0] == 'striter':
            _, s, pos = rec
            if pos >= len(s):
                return Tup((False, 0, 0))
            alts = []
            for c, r, w in self.decode_rune(s, pos):
                def f(s_, r=r, w=w, pos=pos):
                    s_.heap[it.obj] = ('striter', s, pos + w)
                    return Tup((True, pos, r))
                alts.append((c, f))
            if len(alts) == 1 and alts[0][0] is True:
                return alts[0][1](st)
            return ('alts', alts)
        _, m, keys, pos = rec
        ents = self.heapget(st, m.obj) if m is not None else ()
        while pos < len(keys):
            k = keys[pos]
            pos += 1
            for kk, vv in ents:
                if same(kk, k):
                    st.heap[it.obj] = ('mapiter', m, keys, pos)
                    return Tup((True, k, vv))
        st.heap[it.obj] = ('mapiter', m, keys, pos)
        tt = self.prog.types[ins['type']]['elems']
        zs = []
        for t_ in tt[1:]:
            try:
                zs.append(self.zero(t_))
            except (Unsupported, KeyError):
                zs.append(None)
        return Tup((False, zs[0], zs[1]))

    # ------------------------------------------------------------------ global initialisation
    def init_packages(self, pkgs):
        """run the package initialisers concretely into the base heap"""
        st = State((), self.base_heap)
        for p in pkgs:
            fid = p + '.init'
            if p in self.inited:
                continue
            self.inited.add(p)
            if fid not in self.prog.funcs or 'blocks' not in self.prog.funcs[fid]:
                continue
            self.lenient = True
            saved = (self.unwind, self.unwind_for)
            self.unwind, self.unwind_for = 1 << 20, {}     # initialisers run on concrete data: table-building loops are not bounded
            try:
                outs = self.call(fid, [], st)
            finally:
                self.lenient = False
                self.unwind, self.unwind_for = saved
            if len(outs) != 1 or outs[0].kind != 'ret':
                raise Unsupported('package init of %s did not run to completion: %r' % (p, [(o.kind, o.val) for o in outs]))
            st = outs[0].st
        self.base_heap = st.heap

    @property
    def base_ids(self):
        b = self._base_ids
        if b is None or b[0] is not self.base_heap:
            b = self._base_ids = (self.base_heap, frozenset(k for k in self.base_heap if not isinstance(k, str)))
        return b[1]

    def new_state(self):
        return State((), dict(self.base_heap), dom=dict(self.ctx.dom0), mvars=self.ctx.mvars0)
