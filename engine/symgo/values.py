# Value representation shared by the interpreter and the stdlib models.
from collections import namedtuple
import z3
from z3 import BitVecVal, BoolVal, If, And, Or, Not, is_true, is_false


class Str(tuple):
    """Go string: concrete length, each element an int (0..255) or a BitVec(8) term."""
    __slots__ = ()


class Struct(tuple):
    __slots__ = ()


class Arr(tuple):
    __slots__ = ()


class Tup(tuple):
    __slots__ = ()


class MapVal(tuple):
    """insertion-ordered association list ((k, v), ...)"""
    __slots__ = ()


Ptr = namedtuple('Ptr', 'obj path')
Slice = namedtuple('Slice', 'obj path off len cap')
MapRef = namedtuple('MapRef', 'obj')
Iface = namedtuple('Iface', 't v')
Closure = namedtuple('Closure', 'fn binds')
Opaque = namedtuple('Opaque', 'kind data')     # model-owned values (errors, hashers, reflect values, ...)
SymIdx = namedtuple('SymIdx', 'idx base n')     # symbolic array index inside a pointer path: cell base+idx, idx in [0,n)
BoundMethod = namedtuple('BoundMethod', 'fn recv')


class GoPanic(Exception):
    def __init__(self, msg):
        Exception.__init__(self, msg)
        self.msg = msg


def is_sym(v):
    return isinstance(v, z3.ExprRef)


def norm(v, w, signed):
    v &= (1 << w) - 1
    if signed and v >> (w - 1):
        v -= 1 << w
    return v


_BVC = {}


def bvval(v, w):
    k = (v, w)
    r = _BVC.get(k)
    if r is None:
        r = _BVC[k] = BitVecVal(v, w)
    return r


def tobv(v, w):
    return v if isinstance(v, z3.ExprRef) else bvval(v, w)


_T = BoolVal(True)
_F = BoolVal(False)


def tobool(v):
    if isinstance(v, z3.ExprRef):
        return v
    return _T if v else _F


def mk_and(cs):
    out = []
    for c in cs:
        if c is True:
            continue
        if c is False:
            return False
        out.append(c)
    if not out:
        return True
    return out[0] if len(out) == 1 else And(*out)


def mk_or(cs):
    out = []
    for c in cs:
        if c is False:
            continue
        if c is True:
            return True
        out.append(c)
    if not out:
        return False
    return out[0] if len(out) == 1 else Or(*out)


def mk_not(c):
    if c is True:
        return False
    if c is False:
        return True
    return Not(c)


def simp_bool(c):
    """simplify a condition; returns True/False when it folds."""
    if isinstance(c, bool):
        return c
    c = z3.simplify(c, push_ite_bv=True)
    if is_true(c):
        return True
    if is_false(c):
        return False
    return c


def same(a, b):
    """structural identity of two values (no solver)."""
    if a is b:
        return True
    sa, sb = isinstance(a, z3.ExprRef), isinstance(b, z3.ExprRef)
    if sa or sb:
        return sa and sb and a.eq(b)
    if isinstance(a, tuple):
        if type(a) is not type(b) or len(a) != len(b):
            return False
        for x, y in zip(a, b):
            if not same(x, y):
                return False
        return True
    if isinstance(a, bool) != isinstance(b, bool):
        return False
    return a == b


def bytes_of(s):
    """concrete Str -> bytes (raises if symbolic)"""
    return bytes(s)


def concrete_str(s):
    for b in s:
        if isinstance(b, z3.ExprRef):
            return False
    return True


def mkstr(b):
    if isinstance(b, str):
        b = b.encode('utf-8')
    return Str(b)
