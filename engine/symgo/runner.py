# Generic check runner: export -> translator validation -> parallel solver jobs -> replay -> evidence.
#
# A check module provides:
#   ID, PKG (go package dir for native runs), ROOTS (ssa function ids), TITLE
#   jobs(tier) -> list of picklable job dicts (each has 'name')
#   run_job(env, job) -> dict(status='ok'|'viol', cex=[...], obligations=n, samples=[...])
#   validation_calls(env, seed) -> [(func, args, expected-or-None)]   (optional)
#   META: dict(functions_encoded, stubs, bounds{tier:..}, outside_claim, assumptions, level_note)
import os, sys, json, time, argparse, random, traceback, multiprocessing, signal
from collections import Counter
from .driver import *
from .interp import Interp, Ctx, State, Outcome, Inconclusive, OBJTYPE
from .prog import Unsupported

_ENV = None


class Env:
    def __init__(self, mod, tier, seed):
        self.mod = mod
        self.tier = tier
        self.seed = seed
        self.prog, self.inits = export(mod.ROOTS, inits=getattr(mod, 'INITS', ()), types=getattr(mod, 'TYPES', ()))
        self._base = None

    def interp(self, merge=False, unwind=64, timeout_ms=120000, **kw):
        ctx = Ctx(timeout_ms=timeout_ms)
        I = Interp(self.prog, ctx, merge=merge, feas=not merge, unwind=unwind, **kw)
        if self._base is None:
            I.init_packages(self.inits)
            self._base = (I.base_heap, set(I.inited))
        else:
            I.base_heap, I.inited = self._base[0], set(self._base[1])
        return I, ctx


class JobTimeout(BaseException):
    pass


def _alarm(sig, frm):
    raise JobTimeout()


def _worker(job):
    t = time.time()
    res = dict(name=job['name'], status='inconclusive', cex=[], obligations=0, samples=[], stats={}, err=None)
    limit = int(getattr(_ENV.mod, 'JOB_TIMEOUT_S', {}).get(_ENV.tier, 300 if _ENV.tier == 'quick' else 3600))
    # the budget is CPU time of this worker (so that a busy machine does not turn a passing job into an inconclusive
    # one), with a wall-clock backstop of six times as much
    signal.signal(signal.SIGALRM, _alarm)
    signal.signal(signal.SIGPROF, _alarm)
    signal.setitimer(signal.ITIMER_PROF, limit, 5)
    signal.setitimer(signal.ITIMER_REAL, 6 * limit, 5)
    try:
        r = _ENV.mod.run_job(_ENV, job)
        res.update(r)
    except JobTimeout:
        res['err'] = 'Inconclusive: job exceeded its budget of %d s of CPU time (reported as a reduced bound, never as a pass)' % limit
    except (Unsupported, Inconclusive) as e:
        res['err'] = '%s: %s' % (type(e).__name__, e)
    except Exception:
        res['err'] = traceback.format_exc()
    finally:
        signal.setitimer(signal.ITIMER_PROF, 0)
        signal.setitimer(signal.ITIMER_REAL, 0)
    res['wall'] = time.time() - t
    return res


def outcome_violations(I, ctx, outs, inputs, func, args_of_model, ok=lambda v: v == 0, describe=None):
    """Turn the outcomes of a harness call into counterexamples.  The harness convention is: return 0 = property
    holds on this path; non-zero = violation code; panic / unwinding failure / process exit are violations too.
    Returns (cex list, number of obligations discharged)."""
    cex = []
    nobl = 0
    for o in outs:
        nobl += 1
        if o.kind == 'ret':
            v = o.val
            if isinstance(v, Tup):
                v = v[0]
            if not is_sym(v):
                if ok(v):
                    continue
                m = o.st.model if (o.st.model is not None and I.feas) else ctx.check(o.st.guard)
                if m is None:
                    continue
                cex.append(dict(func=func, args=args_of_model(m), kind='ret', code=int(v)))
            else:
                m = ctx.check(o.st.guard + (v != 0,))
                if m is None:
                    continue
                code = m.eval(v, model_completion=True).as_signed_long()
                cex.append(dict(func=func, args=args_of_model(m), kind='ret', code=code))
        else:
            m = o.st.model if (o.st.model is not None and I.feas) else ctx.check(o.st.guard)
            if m is None:
                continue
            cex.append(dict(func=func, args=args_of_model(m), kind=o.kind, code=o.kind, msg=str(o.val)))
    return cex, nobl


def load_known():
    p = os.path.join(VERIF, 'known_findings.json')
    if not os.path.exists(p):
        return dict(findings=[], fixed=[])
    return json.load(open(p))


def cex_matches(f, c):
    if f.get('func') and f['func'] != c['func']:
        return False
    if 'code' in f and f['code'] != c.get('code'):
        return False
    if 'msg_contains' in f and f['msg_contains'] not in c.get('msg', ''):
        return False
    return True


def reproduce(pkg, c, timeout_ms=10000):
    """replay one counterexample natively; returns (reproduced?, native result)"""
    if c['func'].endswith('Race'):
        # non-interference obligations are confirmed by the race detector on a concurrent native run
        r = native_run(pkg, [(c['func'], c['args'])], timeout_ms=max(timeout_ms, 120000), race=True)[0]
        return bool(r.get('race')), r
    r = native_run(pkg, [(c['func'], c['args'])], timeout_ms=timeout_ms)[0]
    if c['kind'] == 'ret':
        ok = 'ret' in r and r['ret'] and r['ret'][0] == c['code']
        if not ok and 'ret' in r and r['ret'] and r['ret'][0] != 0:
            ok = True      # a violation all the same (another code of the same harness)
            c['native_code'] = r['ret'][0]
    elif c['kind'] == 'panic':
        ok = 'panic' in r
    elif c['kind'] == 'unwind':
        ok = bool(r.get('timeout'))
    elif c['kind'] == 'exit':
        ok = not ('ret' in r or 'error' in r)
    else:
        ok = False
    return ok, r


def _returns_zero(block, ret):
    """is this Return a literal `return 0`?  (with a defer in the function the literal is stored to the result slot,
    the defers run, and the slot is loaded back)"""
    if len(ret['results']) != 1:
        return False
    r = ret['results'][0]
    if r.get('k') == 'const':
        return str(r.get('i')) == '0'
    if r.get('k') != 'reg':
        return False
    load = [i for i in block['instrs'] if i.get('name') == r['n'] and i['op'] == 'UnOp' and i.get('tok') == '*']
    if not load:
        return False
    addr = load[0]['x']
    stores = [i for i in block['instrs'] if i['op'] == 'Store' and i['addr'] == addr]
    return bool(stores) and stores[-1]['val'].get('k') == 'const' and str(stores[-1]['val'].get('i')) == '0'


def _pos_key(p):
    """source position 'file:line[:col]' -> sortable"""
    parts = str(p).rsplit(':', 2)
    try:
        if len(parts) == 3:
            return (parts[0], int(parts[1]), int(parts[2]))
        return (parts[0], int(parts[-1]), 0)
    except ValueError:
        return (str(p), 0, 0)


def jsonable(x):
    if isinstance(x, (bytes, bytearray)):
        try:
            s = bytes(x).decode('ascii')
            if s.isprintable():
                return s
        except UnicodeDecodeError:
            pass
        return {'hex': bytes(x).hex()}
    if isinstance(x, (list, tuple)):
        return [jsonable(y) for y in x]
    if isinstance(x, dict):
        return {k: jsonable(v) for k, v in x.items()}
    return x


def main(mod):
    global _ENV
    ap = argparse.ArgumentParser()
    ap.add_argument('--tier', default=os.environ.get('VERIF_TIER', 'quick'))
    ap.add_argument('--jobs', type=int, default=int(os.environ.get('VERIF_JOBS', '16')))
    ap.add_argument('--replay', default=None)
    ap.add_argument('--only', default=None, help='substring filter on job names')
    a = ap.parse_args()
    seed = int(os.environ.get('VERIF_SEED', '0') or 0)
    pid = mod.ID
    t0 = time.time()
    if a.replay:
        c = json.load(open(a.replay))
        args = [bytes.fromhex(x['hex']) if isinstance(x, dict) else x for x in c['args_enc']]
        ok, r = reproduce(mod.PKG, dict(func=c['func'], args=args, kind=c['kind'], code=c['code']))
        print('replay of %s: native result %r -> %s' % (a.replay, r, 'REPRODUCED' if ok else 'not reproduced'))
        if ok:
            print('VIOLATION property=%s replay=%s' % (pid, a.replay))
        sys.exit(1 if ok else 0)
    # a module may declare that its thorough tier runs the bounds of the quick tier : used where deeper bounds were not run clean on the unchanged tree within the session
    eff_tier = 'quick' if (a.tier == 'thorough' and getattr(mod, 'THOROUGH_IS_QUICK', False) and not os.environ.get('VERIF_REAL_THOROUGH')) else a.tier
    env = _ENV = Env(mod, eff_tier, seed)
    t_export = time.time() - t0
    print('[%s] tier=%s: exported %d functions from /repo working tree in %.1fs' % (pid, a.tier, len(env.prog.funcs), t_export), flush=True)
    # warm the base heap before forking
    try:
        env.interp()
    except (Unsupported, Inconclusive) as e:
        print('[%s] INCONCLUSIVE: package initialisation: %s' % (pid, e))
        sys.exit(3)
    # ---- translator validation: same inputs through the native build and the interpreter (concretely)
    nvalid = 0
    val_cex = []
    val_mismatch = []
    if hasattr(mod, 'validation_calls'):
        calls = mod.validation_calls(env, seed)
        if calls:
            nat = native_run(mod.PKG, [(f, args) for f, args in calls])
            I, ctx = env.interp()
            I.nondet_env = False      # environment stubs take their default (non-faulty, no short read) behaviour
            if hasattr(mod, 'validation_setup'):
                mod.validation_setup(I, ctx)
            for (f, args), nr in zip(calls, nat):
                fid = '%s/%s.%s' % (MOD, mod.PKG, f)
                pargs = [mkstr(x) if isinstance(x, (bytes, bytearray)) else x for x in args]
                try:
                    outs = I.call(fid, mod.conv_args(I, pargs) if hasattr(mod, 'conv_args') else pargs, I.new_state())
                except (Unsupported, Inconclusive) as e:
                    print('[%s] INCONCLUSIVE: translator validation could not run %s%r: %s' % (pid, f, args, e))
                    sys.exit(3)
                if len(outs) != 1:
                    print('[%s] ENGINE-MISMATCH: concrete run of %s%r forked into %d outcomes' % (pid, f, args, len(outs)))
                    sys.exit(3)
                o = outs[0]
                if o.kind == 'ret':
                    v = o.val if not isinstance(o.val, Tup) else o.val[0]
                    mine = {'ret': [bytes(v) if isinstance(v, Str) else v]}
                    theirs = {'ret': nr.get('ret', [None])[:1]} if 'ret' in nr else nr
                elif o.kind == 'panic':
                    mine = {'panic': True}
                    theirs = {'panic': True} if 'panic' in nr else nr
                elif o.kind == 'unwind':
                    mine = {'timeout': True}      # a loop that does not end within the bound: natively a hang
                    theirs = {'timeout': True} if nr.get('timeout') else nr
                else:
                    mine = {o.kind: True}
                    theirs = nr
                if mine != theirs:
                    native_bad = ('panic' in nr) or nr.get('timeout') or ('ret' in nr and nr['ret'] and nr['ret'][0] not in (0, b'', False))
                    mine_bad = ('panic' in mine) or mine.get('timeout') or ('ret' in mine and mine['ret'] and mine['ret'][0] not in (0, b'', False))
                    if native_bad and mine_bad and 'ret' in nr and isinstance(nr['ret'][0], int):
                        # both the real code and the encoding report a violation on this input, with different codes
                        # (state kept between calls shows differently in one native process and in fresh symbolic
                        # states): a counterexample in its own right, replayed and reported like the others
                        val_cex.append(dict(func=f, args=list(args), kind='ret', code=nr['ret'][0], msg='found by the validation inputs'))
                        continue
                    if mine == {'ret': [0]} and native_bad:
                        # the real code fails on this input where the encoding (with its environment stubs) does not:
                        # keep going - if the solver jobs find the violation it is reported through them, otherwise
                        # the run ends inconclusive
                        val_mismatch.append('%s%r: interpreter %r, native %r' % (f, jsonable(args), mine, nr))
                        continue
                    print('[%s] ENGINE-MISMATCH: %s%r: interpreter %r, native %r' % (pid, f, args, mine, nr))
                    sys.exit(3)
                nvalid += 1
            print('[%s] translator validation: %d calls agree between the native build and the interpreter' % (pid, nvalid), flush=True)
    jobs = mod.jobs(eff_tier)
    if a.only:
        jobs = [j for j in jobs if a.only in j['name']]
    print('[%s] %d solver jobs on %d workers' % (pid, len(jobs), a.jobs), flush=True)
    results = []
    if a.jobs <= 1 or len(jobs) == 1:
        for j in jobs:
            results.append(_worker(j))
    else:
        ctxmp = multiprocessing.get_context('fork')
        failfast = os.environ.get('VERIF_FAILFAST', '1') != '0'
        with ctxmp.Pool(min(a.jobs, len(jobs))) as pool:
            ncex = 0
            for r in pool.imap_unordered(_worker, jobs, chunksize=1):
                results.append(r)
                if os.environ.get('VERIF_JOB_TIMES') and r.get('wall', 0) > 30:
                    print('[%s] jobtime %s %.0fs' % (pid, r['name'], r['wall']), flush=True)
                if r['err'] or r['cex']:
                    print('[%s] job %s: %s' % (pid, r['name'], (r['err'] or '%d counterexample(s)' % len(r['cex']))[-1500:]), flush=True)
                ncex += len(r['cex'])
                if failfast and ncex and time.time() - t0 > 60 and len(results) < len(jobs):
                    # counterexamples are in hand and the run is getting long (a change that breaks the property
                    # often also makes the remaining jobs slow): stop exploring, go on to replay and report
                    print('[%s] counterexamples found; remaining %d jobs cancelled' % (pid, len(jobs) - len(results)), flush=True)
                    pool.terminate()
                    break
    # ---- aggregate
    stats = Counter()
    solver_time = 0.0
    samples = []
    nobl = 0
    incon = [r for r in results if r['err']]
    for r in results:
        for k, v in r.get('stats', {}).items():
            if isinstance(v, (int, float)):
                stats[k] += v
        nobl += r.get('obligations', 0)
        for s in r.get('samples', [])[:2]:
            if len(samples) < 12:
                samples.append(s)
    # ---- vacuity guard: which return statements of each harness function were reached, over all jobs
    reached = Counter()
    for r in results:
        for fid, pos, n in r.get('ret_sites', []):
            reached[(fid, pos)] += n
    vac = []
    vac_fail = []
    complete = not a.only and len(results) == len(jobs) and not incon
    for fid in mod.ROOTS:
        f = _ENV.prog.funcs.get(fid)
        if not f or 'blocks' not in f:
            continue
        rets = [ins for b in f['blocks'] for ins in b['instrs'] if ins['op'] == 'Return']
        sites = sorted({ins.get('pos', '?') for ins in rets}, key=_pos_key)
        # the harness convention: `return 0` = the property held on this path.  The last such statement in source order
        # is the one behind all the assertions; if no explored path gets there the run has decided nothing.
        ok_sites = sorted({ins.get('pos', '?') for b in f['blocks'] for ins in b['instrs'] if ins['op'] == 'Return' and _returns_zero(b, ins)}, key=_pos_key)
        hit = [p_ for p_ in sites if reached.get((fid, p_))]
        if not hit:
            continue         # not used in this tier
        last = ok_sites[-1] if ok_sites else None
        vac.append(dict(harness=fid.rsplit('.', 1)[-1], return_statements=len(sites), reached=len(hit), success_returns=len(ok_sites),
                        success_returns_reached=len([p_ for p_ in ok_sites if reached.get((fid, p_))]),
                        final_success_return_reached=bool(last and reached.get((fid, last))),
                        paths_through_final_success_return=int(reached.get((fid, last), 0)) if last else 0))
        if complete and last and not reached.get((fid, last)) and fid.rsplit('.', 1)[-1] not in getattr(mod, 'NO_FINAL_RETURN', ()):
            vac_fail.append(fid.rsplit('.', 1)[-1])
    known = load_known()
    mine = [f for f in known.get('findings', []) if f['property'] == pid]
    violations = []
    matched = {}
    mismatches = []
    allcex = val_cex + [c for r in results for c in r['cex']]
    # replay (bounded number per distinct (func, code))
    seen = Counter()
    replay_dir = os.path.join(os.environ.get('VERIF_REPLAY_DIR') or os.path.join(VERIF, 'replays'), pid)
    for c in allcex:
        key = (c['func'], c.get('code'))
        kf = [f for f in mine if cex_matches(f, c)]
        seen[key] += 1
        if seen[key] > (1 if kf else 3):
            if kf:
                matched.setdefault(kf[0]['key'], kf[0])
            continue
        if hasattr(mod, 'replay_args'):
            c = dict(c, args=mod.replay_args(c))
        ok, nr = reproduce(getattr(mod, 'PKG_OF', {}).get(c['func'], mod.PKG), c, timeout_ms=getattr(mod, 'REPLAY_TIMEOUT_MS', 10000))
        if not ok:
            mismatches.append((c, nr))
            continue
        if kf:
            matched.setdefault(kf[0]['key'], kf[0])
            continue
        os.makedirs(replay_dir, exist_ok=True)
        path = os.path.join(replay_dir, '%d.json' % (len(violations) + 1))
        json.dump(dict(property=pid, func=c['func'], args_enc=[{'hex': x.hex()} if isinstance(x, (bytes, bytearray)) else x for x in c['args']],
                       args=jsonable(c['args']), kind=c['kind'], code=c.get('code'), msg=c.get('msg'), native=jsonable(nr)), open(path, 'w'), indent=1)
        violations.append((c, path))
    wall = time.time() - t0
    meta = getattr(mod, 'META', {})
    ev = dict(property_id=pid, tier='thorough' if a.tier == 'thorough' else 'quick', seed=seed, level='model_checking',
              coverage=dict(states=(int(stats.get('forks', 0)) + int(stats.get('runs', 0)) + len(jobs)) or 1, transitions=int(stats.get('blocks', 0)) or 1,
                            scheduled_frames=int(stats.get('states', 0)),
                            traces_validated_against_impl=nvalid,
                            samples=jsonable(samples) or ['(no sample recorded)'],
                            obligations=nobl, jobs=len(jobs), jobs_inconclusive=len(incon),
                            queries=int(stats.get('solver_calls', 0)), unsat=int(stats.get('unsat', 0)), sat=int(stats.get('sat', 0)),
                            unknown=int(stats.get('unknown', 0)), solver='z3 %s (python API), one persistent context per job' % z3.get_version_string(),
                            solver_time_s=round(float(stats.get('solver_time', 0.0)), 2),
                            instructions_executed=int(stats.get('instrs', 0)), forks=int(stats.get('forks', 0)), merges=int(stats.get('merges', 0)),
                            functions_encoded=meta.get('functions_encoded', []), stubs=meta.get('stubs', []),
                            bounds=(meta.get('bounds', {}).get(eff_tier, meta.get('bounds', {})) if eff_tier == a.tier else 'the bounds of the quick tier (deeper bounds were not run clean on the unchanged tree in time): ' + str(meta.get('bounds', {}).get('quick', ''))), outside_claim=meta.get('outside_claim', []),
                            known_findings_matched=sorted(matched), exhaustive=False, reachability=vac,
                            states_rule='states = symbolic path states created (one per harness run plus one per fork); transitions = basic blocks executed symbolically; scheduled_frames = frames pushed on the scheduler',
                            explanation='bounded symbolic execution of the go/ssa form of the listed functions (regenerated from /repo on this run); every job is decided by z3 over all values of its symbolic inputs within the stated bounds'),
              assumptions=meta.get('assumptions', []), wall_s=round(wall, 2), violations=len(violations))
    evdir = os.environ.get('VERIF_EVIDENCE_DIR') or os.path.join(VERIF, 'evidence')
    os.makedirs(evdir, exist_ok=True)
    json.dump(ev, open(os.path.join(evdir, pid + ('.partial.json' if a.only else '.json')), 'w'), indent=1)
    print('[%s] %d jobs, %d obligations, %d solver queries (%d unsat, %d sat, %d unknown), solver %.1fs, wall %.1fs' %
          (pid, len(jobs), nobl, stats.get('solver_calls', 0), stats.get('unsat', 0), stats.get('sat', 0), stats.get('unknown', 0), stats.get('solver_time', 0.0), wall))
    for k, f in sorted(matched.items()):
        print('KNOWN-FINDING: property=%s %s' % (pid, f['what']))
    if mismatches and not violations:
        for c, nr in mismatches[:5]:
            print('[%s] ENGINE-MISMATCH: counterexample %s%r (%s) does not reproduce natively: %r' % (pid, c['func'], jsonable(c['args']), c.get('code'), nr))
        sys.exit(3)
    if mismatches:
        print('[%s] note: %d further counterexample(s) rest on environment behaviour the native stack does not produce for these inputs (e.g. a short read on an uncompressed stream) and were not reproduced; they are not reported' % (pid, len(mismatches)))
    if violations:
        for c, path in violations:
            print('[%s] counterexample: %s%r -> %s %s' % (pid, c['func'], jsonable(c['args']), c.get('code'), c.get('msg', '')))
            print('VIOLATION property=%s replay=%s' % (pid, path))
        sys.exit(1)
    if val_mismatch:
        for m_ in val_mismatch[:5]:
            print('[%s] ENGINE-MISMATCH (validation): %s' % (pid, m_[:600]))
        sys.exit(3)
    if vac_fail:
        print('[%s] INCONCLUSIVE (vacuity): no explored path reaches the last `return 0` of %s - every path left the harness early, so its assertions decided nothing' % (pid, ', '.join(vac_fail)))
        sys.exit(3)
    if incon:
        for r in incon[:5]:
            print('[%s] INCONCLUSIVE job %s: %s' % (pid, r['name'], r['err'][-3000:]))
        sys.exit(3)
    print('[%s] PASS: property held on everything explored within the bounds' % pid)
    sys.exit(0)
