// ssaexport: dump the go/ssa form of the functions reachable from a set of
// root functions (static callees, closures, method sets of types that are
// converted to interfaces, package initialisers) as JSON for the symbolic
// interpreter.  The program is rebuilt from /repo's working tree on every
// run; harness code is injected through a go/packages overlay.
//
// usage: ssaexport -out f.json -dir /repo -overlay ov.json -stop stop.txt
//
//	-pkgs p1,p2 -roots r1,r2 [-inits pkg1,pkg2]
package main

import (
	"encoding/json"
	"flag"
	"fmt"
	"go/constant"
	"go/token"
	"go/types"
	"os"
	"reflect"
	"sort"
	"strings"

	"golang.org/x/tools/go/packages"
	"golang.org/x/tools/go/ssa"
	"golang.org/x/tools/go/ssa/ssautil"
)

type M = map[string]interface{}

var (
	prog     *ssa.Program
	typeTab  = map[string]M{}
	typeObj  = map[string]types.Type{}
	funcTab  = map[string]M{}
	funcObj  = map[string]*ssa.Function{}
	pending  []*ssa.Function
	stopAt   = map[string]bool{}
	stopPkg  = map[string]bool{}
	methTab  = map[string]M{} // type id -> method name -> func id
	methTodo []types.Type
	methSeen = map[string]bool{}
	globTab  = map[string]M{}
	repoMod  = "pault.ag/go/debian"
)

func tid(t types.Type) string {
	if t == nil {
		return ""
	}
	t = types.Unalias(t)
	id := types.TypeString(t, nil)
	if _, ok := typeTab[id]; ok {
		return id
	}
	m := M{}
	typeTab[id] = m
	typeObj[id] = t
	switch t := t.(type) {
	case *types.Basic:
		m["kind"] = "basic"
		m["name"] = t.Name()
		m["info"] = int(t.Info())
		m["bkind"] = int(t.Kind())
	case *types.Named:
		m["kind"] = "named"
		m["under"] = tid(t.Underlying())
		if t.Obj().Pkg() != nil {
			m["pkg"] = t.Obj().Pkg().Path()
			if strings.HasPrefix(t.Obj().Pkg().Path(), repoMod) {
				wantMethods(t)
			}
		}
		m["name"] = t.Obj().Name()
	case *types.Pointer:
		m["kind"] = "pointer"
		m["elem"] = tid(t.Elem())
	case *types.Slice:
		m["kind"] = "slice"
		m["elem"] = tid(t.Elem())
	case *types.Array:
		m["kind"] = "array"
		m["elem"] = tid(t.Elem())
		m["len"] = t.Len()
	case *types.Map:
		m["kind"] = "map"
		m["key"] = tid(t.Key())
		m["elem"] = tid(t.Elem())
	case *types.Chan:
		m["kind"] = "chan"
		m["elem"] = tid(t.Elem())
	case *types.Struct:
		m["kind"] = "struct"
		fs := []M{}
		for i := 0; i < t.NumFields(); i++ {
			f := t.Field(i)
			pkg := ""
			if f.Pkg() != nil {
				pkg = f.Pkg().Path()
			}
			fs = append(fs, M{"name": f.Name(), "type": tid(f.Type()), "tag": t.Tag(i), "embedded": f.Embedded(), "exported": f.Exported(), "pkg": pkg})
		}
		m["fields"] = fs
	case *types.Interface:
		m["kind"] = "interface"
		ms := []string{}
		for i := 0; i < t.NumMethods(); i++ {
			ms = append(ms, t.Method(i).Name())
		}
		m["methods"] = ms
	case *types.Signature:
		m["kind"] = "signature"
		m["params"] = tid(t.Params())
		m["results"] = tid(t.Results())
		m["variadic"] = t.Variadic()
	case *types.Tuple:
		m["kind"] = "tuple"
		es := []string{}
		for i := 0; i < t.Len(); i++ {
			es = append(es, tid(t.At(i).Type()))
		}
		m["elems"] = es
	case *types.TypeParam:
		m["kind"] = "typeparam"
	default:
		m["kind"] = "other:" + reflect.TypeOf(t).String()
	}
	return id
}

// wantMethods schedules the method sets of t and *t for export.
func wantMethods(t types.Type) {
	t = types.Unalias(t)
	if p, ok := t.(*types.Pointer); ok {
		t = types.Unalias(p.Elem())
	}
	id := types.TypeString(t, nil)
	if methSeen[id] {
		return
	}
	methSeen[id] = true
	methTodo = append(methTodo, t)
}

func exportMethods(t types.Type) {
	for _, tt := range []types.Type{t, types.NewPointer(t)} {
		if _, isIface := tt.Underlying().(*types.Interface); isIface {
			continue
		}
		ms := prog.MethodSets.MethodSet(tt)
		mm := M{}
		for i := 0; i < ms.Len(); i++ {
			sel := ms.At(i)
			fn := prog.MethodValue(sel)
			if fn == nil {
				continue
			}
			mm[sel.Obj().Name()] = fid(fn)
		}
		methTab[tid(tt)] = mm
	}
}

func fid(f *ssa.Function) string {
	id := f.String()
	if _, ok := funcObj[id]; !ok {
		funcObj[id] = f
		pending = append(pending, f)
	}
	return id
}

func val(v ssa.Value) interface{} {
	switch v := v.(type) {
	case nil:
		return nil
	case *ssa.Const:
		m := M{"k": "const", "t": tid(v.Type())}
		if v.Value == nil {
			m["nil"] = true
		} else {
			switch v.Value.Kind() {
			case constant.Bool:
				m["v"] = constant.BoolVal(v.Value)
			case constant.String:
				m["s"] = []byte(constant.StringVal(v.Value)) // base64 in JSON
			case constant.Int:
				m["i"] = v.Value.ExactString()
			case constant.Float:
				m["f"] = v.Value.ExactString()
			default:
				m["x"] = v.Value.ExactString()
			}
		}
		return m
	case *ssa.Function:
		return M{"k": "func", "id": fid(v)}
	case *ssa.Global:
		g := v.String()
		if _, ok := globTab[g]; !ok {
			pkg := ""
			if v.Pkg != nil {
				pkg = v.Pkg.Pkg.Path()
			}
			globTab[g] = M{"t": tid(v.Type()), "elem": tid(v.Type().(*types.Pointer).Elem()), "pkg": pkg}
		}
		return M{"k": "global", "n": g}
	case *ssa.Builtin:
		return M{"k": "builtin", "n": v.Name()}
	case *ssa.Parameter:
		return M{"k": "reg", "n": "p:" + v.Name()}
	case *ssa.FreeVar:
		return M{"k": "reg", "n": "f:" + v.Name()}
	default:
		return M{"k": "reg", "n": v.Name()}
	}
}

func vals(vs []ssa.Value) []interface{} {
	out := make([]interface{}, len(vs))
	for i, v := range vs {
		out[i] = val(v)
	}
	return out
}

func common(c *ssa.CallCommon) M {
	m := M{"args": vals(c.Args), "sig": tid(c.Signature())}
	if c.IsInvoke() {
		m["invoke"] = true
		m["method"] = c.Method.Name()
		m["value"] = val(c.Value)
		m["recvt"] = tid(c.Value.Type())
	} else {
		m["value"] = val(c.Value)
		if sf := c.StaticCallee(); sf != nil {
			m["static"] = fid(sf)
		}
	}
	return m
}

func instr(in ssa.Instruction) M {
	m := M{"op": reflect.TypeOf(in).Elem().Name()}
	if v, ok := in.(ssa.Value); ok {
		m["name"] = v.Name()
		m["type"] = tid(v.Type())
	}
	switch in := in.(type) {
	case *ssa.Alloc:
		m["heap"] = in.Heap
		m["elem"] = tid(in.Type().(*types.Pointer).Elem())
	case *ssa.BinOp:
		m["tok"] = in.Op.String()
		m["x"], m["y"] = val(in.X), val(in.Y)
		m["xt"] = tid(in.X.Type())
		m["yt"] = tid(in.Y.Type())
	case *ssa.UnOp:
		m["tok"] = in.Op.String()
		m["x"] = val(in.X)
		m["commaok"] = in.CommaOk
		m["xt"] = tid(in.X.Type())
	case *ssa.Call:
		m["call"] = common(&in.Call)
	case *ssa.Defer:
		m["call"] = common(&in.Call)
	case *ssa.Go:
		m["call"] = common(&in.Call)
	case *ssa.ChangeInterface:
		m["x"] = val(in.X)
	case *ssa.ChangeType:
		m["x"] = val(in.X)
	case *ssa.Convert:
		m["x"] = val(in.X)
		m["xt"] = tid(in.X.Type())
	case *ssa.MultiConvert:
		m["x"] = val(in.X)
		m["xt"] = tid(in.X.Type())
	case *ssa.MakeInterface:
		m["x"] = val(in.X)
		m["xt"] = tid(in.X.Type())
		wantMethods(in.X.Type())
	case *ssa.SliceToArrayPointer:
		m["x"] = val(in.X)
	case *ssa.Extract:
		m["x"] = val(in.Tuple)
		m["index"] = in.Index
	case *ssa.Field:
		m["x"] = val(in.X)
		m["field"] = in.Field
		m["xt"] = tid(in.X.Type())
	case *ssa.FieldAddr:
		m["x"] = val(in.X)
		m["field"] = in.Field
		m["xt"] = tid(in.X.Type())
	case *ssa.If:
		m["cond"] = val(in.Cond)
	case *ssa.Jump:
	case *ssa.Return:
		m["results"] = vals(in.Results)
	case *ssa.Panic:
		m["x"] = val(in.X)
	case *ssa.RunDefers:
	case *ssa.Index:
		m["x"], m["index"] = val(in.X), val(in.Index)
		m["xt"] = tid(in.X.Type())
		m["it"] = tid(in.Index.Type())
	case *ssa.IndexAddr:
		m["x"], m["index"] = val(in.X), val(in.Index)
		m["xt"] = tid(in.X.Type())
		m["it"] = tid(in.Index.Type())
	case *ssa.Lookup:
		m["x"], m["index"] = val(in.X), val(in.Index)
		m["commaok"] = in.CommaOk
		m["xt"] = tid(in.X.Type())
		m["it"] = tid(in.Index.Type())
	case *ssa.MakeClosure:
		m["fn"] = val(in.Fn)
		m["bindings"] = vals(in.Bindings)
	case *ssa.MakeMap:
		m["reserve"] = val(in.Reserve)
	case *ssa.MakeSlice:
		m["len"], m["cap"] = val(in.Len), val(in.Cap)
	case *ssa.MakeChan:
		m["size"] = val(in.Size)
	case *ssa.MapUpdate:
		m["map"], m["key"], m["value"] = val(in.Map), val(in.Key), val(in.Value)
	case *ssa.Next:
		m["iter"] = val(in.Iter)
		m["isstring"] = in.IsString
	case *ssa.Range:
		m["x"] = val(in.X)
		m["xt"] = tid(in.X.Type())
	case *ssa.Phi:
		m["edges"] = vals(in.Edges)
	case *ssa.Slice:
		m["x"], m["low"], m["high"], m["max"] = val(in.X), val(in.Low), val(in.High), val(in.Max)
		m["xt"] = tid(in.X.Type())
	case *ssa.Store:
		m["addr"], m["val"] = val(in.Addr), val(in.Val)
	case *ssa.TypeAssert:
		m["x"] = val(in.X)
		m["asserted"] = tid(in.AssertedType)
		m["commaok"] = in.CommaOk
	case *ssa.Send:
		m["chan"], m["x"] = val(in.Chan), val(in.X)
	case *ssa.Select:
		m["blocking"] = in.Blocking
	case *ssa.DebugRef:
	default:
		m["unknown"] = true
	}
	if p := in.Pos(); p != token.NoPos {
		pp := prog.Fset.Position(p)
		m["pos"] = fmt.Sprintf("%s:%d", pp.Filename, pp.Line)
	}
	return m
}

func export(f *ssa.Function) M {
	m := M{"id": f.String(), "name": f.Name(), "sig": tid(f.Signature), "synthetic": f.Synthetic}
	if f.Pkg != nil {
		m["pkg"] = f.Pkg.Pkg.Path()
	}
	ps, fvs := []M{}, []M{}
	for _, p := range f.Params {
		ps = append(ps, M{"n": "p:" + p.Name(), "t": tid(p.Type())})
	}
	for _, p := range f.FreeVars {
		fvs = append(fvs, M{"n": "f:" + p.Name(), "t": tid(p.Type())})
	}
	m["params"], m["freevars"] = ps, fvs
	if f.Blocks == nil {
		m["external"] = true
		return m
	}
	if f.Recover != nil {
		m["recover"] = f.Recover.Index
	}
	bs := []M{}
	for _, b := range f.Blocks {
		bm := M{"index": b.Index, "comment": b.Comment}
		preds, succs := []int{}, []int{}
		for _, p := range b.Preds {
			preds = append(preds, p.Index)
		}
		for _, s := range b.Succs {
			succs = append(succs, s.Index)
		}
		bm["preds"], bm["succs"] = preds, succs
		if b.Idom() != nil {
			bm["idom"] = b.Idom().Index
		} else {
			bm["idom"] = -1
		}
		is := []M{}
		for _, in := range b.Instrs {
			if _, ok := in.(*ssa.DebugRef); ok {
				continue
			}
			is = append(is, instr(in))
		}
		bm["instrs"] = is
		bs = append(bs, bm)
	}
	m["blocks"] = bs
	return m
}

func splitList(s string) []string {
	var out []string
	for _, x := range strings.Split(s, ",") {
		x = strings.TrimSpace(x)
		if x != "" {
			out = append(out, x)
		}
	}
	return out
}

func main() {
	out := flag.String("out", "", "output json")
	dir := flag.String("dir", "/repo", "module directory")
	ovf := flag.String("overlay", "", "json file {virtual path: real path}")
	stopf := flag.String("stop", "", "file with one function id (or pkg:<path>) per line that must not be descended into")
	pkgsF := flag.String("pkgs", "./...", "package patterns, comma separated")
	rootsF := flag.String("roots", "", "root function ids, comma separated (prefix match with trailing *)")
	initsF := flag.String("inits", "", "packages whose init function is exported, comma separated")
	typesF := flag.String("types", "", "extra named types (pkgpath.Name) whose method sets are exported")
	flag.Parse()

	overlay := map[string][]byte{}
	if *ovf != "" {
		var ov map[string]string
		b, err := os.ReadFile(*ovf)
		if err != nil {
			panic(err)
		}
		if err := json.Unmarshal(b, &ov); err != nil {
			panic(err)
		}
		for k, v := range ov {
			c, err := os.ReadFile(v)
			if err != nil {
				panic(err)
			}
			overlay[k] = c
		}
	}
	if *stopf != "" {
		b, err := os.ReadFile(*stopf)
		if err != nil {
			panic(err)
		}
		for _, l := range strings.Split(string(b), "\n") {
			l = strings.TrimSpace(l)
			if l == "" {
				continue
			}
			if strings.HasPrefix(l, "pkg:") {
				stopPkg[l[4:]] = true
			} else {
				stopAt[l] = true
			}
		}
	}
	cfg := &packages.Config{Mode: packages.LoadAllSyntax, Dir: *dir, Overlay: overlay, BuildFlags: []string{"-tags=verif"}}
	pkgs, err := packages.Load(cfg, splitList(*pkgsF)...)
	if err != nil {
		fmt.Fprintln(os.Stderr, "load:", err)
		os.Exit(2)
	}
	if packages.PrintErrors(pkgs) > 0 {
		os.Exit(2)
	}
	var ssapkgs []*ssa.Package
	prog, ssapkgs = ssautil.AllPackages(pkgs, ssa.InstantiateGenerics)
	_ = ssapkgs
	prog.Build()
	all := ssautil.AllFunctions(prog)
	byName := map[string]*ssa.Function{}
	for f := range all {
		byName[f.String()] = f
	}
	// package members that AllFunctions misses when unreferenced
	for _, p := range prog.AllPackages() {
		for _, mem := range p.Members {
			if f, ok := mem.(*ssa.Function); ok {
				byName[f.String()] = f
			}
		}
	}
	for _, s := range splitList(*rootsF) {
		if strings.HasSuffix(s, "*") {
			pre := s[:len(s)-1]
			n := 0
			var names []string
			for name := range byName {
				if strings.HasPrefix(name, pre) {
					names = append(names, name)
				}
			}
			sort.Strings(names)
			for _, name := range names {
				fid(byName[name])
				n++
			}
			if n == 0 {
				fmt.Fprintln(os.Stderr, "no function matches:", s)
				os.Exit(2)
			}
			continue
		}
		f := byName[s]
		if f == nil {
			fmt.Fprintln(os.Stderr, "no such function:", s)
			os.Exit(2)
		}
		fid(f)
	}
	initPkgs := map[string]bool{}
	for _, p := range splitList(*initsF) {
		initPkgs[p] = true
	}
	for _, p := range prog.AllPackages() {
		if initPkgs[p.Pkg.Path()] {
			if f := p.Func("init"); f != nil {
				fid(f)
			}
		}
	}
	for _, tn := range splitList(*typesF) {
		i := strings.LastIndex(tn, ".")
		for _, p := range prog.AllPackages() {
			if p.Pkg.Path() == tn[:i] {
				if o := p.Pkg.Scope().Lookup(tn[i+1:]); o != nil {
					tid(o.Type())
					wantMethods(o.Type())
				}
			}
		}
	}
	for len(pending) > 0 || len(methTodo) > 0 {
		for len(pending) > 0 {
			f := pending[0]
			pending = pending[1:]
			id := f.String()
			pk := ""
			if f.Pkg != nil {
				pk = f.Pkg.Pkg.Path()
			} else if f.Object() != nil && f.Object().Pkg() != nil {
				pk = f.Object().Pkg().Path()
			}
			if stopAt[id] || (stopPkg[pk] && !initPkgs[pk]) || (f.Name() == "init" && f.Pkg != nil && !initPkgs[pk] && f.Synthetic != "") {
				funcTab[id] = M{"id": id, "stub": true, "sig": tid(f.Signature), "pkg": pk, "name": f.Name()}
				continue
			}
			funcTab[id] = export(f)
		}
		for len(methTodo) > 0 {
			t := methTodo[0]
			methTodo = methTodo[1:]
			exportMethods(t)
		}
	}
	res := M{"funcs": funcTab, "types": typeTab, "methods": methTab, "globals": globTab}
	b, _ := json.Marshal(res)
	if err := os.WriteFile(*out, b, 0644); err != nil {
		panic(err)
	}
	fmt.Fprintf(os.Stderr, "exported %d funcs, %d types, %d method sets, %d globals, %d bytes\n", len(funcTab), len(typeTab), len(methTab), len(globTab), len(b))
}
