#!/usr/bin/env python3
# C13 - ar reader returns every member with exact metadata and bytes.
import os, sys, random, itertools
sys.path.insert(0, os.path.dirname(os.path.abspath(__file__)))
from common import *

ID = 'C13'
PKG = 'deb'
P = MOD + '/deb.'
ROOTS = [P + n for n in ('VerifC13Step', 'VerifC13Magic', 'VerifC13Archive')]
NAMEC = bytes(x for x in range(0x21, 0x7f) if x != ord('/'))
WIDTHS = dict(ts=12, uid=6, gid=6, size=10)
META = dict(
    functions_encoded=['deb.LoadAr', 'deb.checkAr', '(*Ar).Next', 'deb.parseArEntry', 'deb.toDecimal', 'io.NewSectionReader', '(*io.SectionReader).Read/ReadAt/Seek/Size',
                       'strconv.Atoi', 'strings.TrimSpace', 'strings.TrimSuffix (model)', 'bytes.Reader', 'io.ReadAll'],
    stubs=['io.ReaderAt for the inductive step: serves the 60 header bytes at the current offset and records the offsets asked for (harness verifHdrAt)', 'fmt.Errorf (opaque error)'],
    bounds={'quick': 'one inductive step: any offset in [0, 2^62), a well-formed header with a name of every length 1-16 (symbolic characters, optional trailing /, also with a / inside the name), one numeric field at a time with 0..width symbolic digits (the others blank or concrete), plus all four with up to 3 digits; global magic: any 8-9 bytes; end-to-end: 0-3 members with sizes 0-3 (odd and even), symbolic names and data bytes',
            'thorough': 'two numeric fields at a time at full width; end-to-end with sizes up to 5'},
    outside_claim=['GNU/BSD long-name extensions (not in the statement)', 'names containing blanks'],
    assumptions=['one inductive step from an arbitrary offset covers archives of any member count and sizes: the new offset is, by the format definition, where the next well-formed header lies'])


def field(sym_prefix, width, ndig, assume, blank_ok=True):
    """a numeric header field: ndig symbolic digits then spaces; returns (bytes tuple, value term or 0)"""
    if ndig == 0:
        return (32,) * width, 0
    d = symstr(sym_prefix, ndig)
    for c in d:
        assume.append(in_set(c, DIGITS))
    val = None
    for c in d:
        dv = z3.ZeroExt(56, c - 48)
        val = dv if val is None else val * 10 + dv
    return tuple(d) + (32,) * (width - ndig), val


def header(namelen, slash, digs, assume, mode=b'100644', inner=None):
    name = symstr('nm', namelen)
    for i, c in enumerate(name):
        assume.append(in_set(c, NAMEC) if i != inner else c == 47)     # inner: position of a '/' inside the name
    nf = tuple(name) + ((47,) if slash else ())
    nf = nf + (32,) * (16 - len(nf))
    ts, tsv = field('ts', 12, digs.get('ts', 0), assume)
    uid, uidv = field('uid', 6, digs.get('uid', 0), assume)
    gid, gidv = field('gid', 6, digs.get('gid', 0), assume)
    md = tuple(mode) + (32,) * (8 - len(mode))
    sz, szv = field('sz', 10, digs.get('size', 0), assume)
    hdr = nf + ts + uid + gid + md + sz + (0x60, 0x0A)
    assert len(hdr) == 60
    return Str(hdr), Str(name), tsv, uidv, gidv, mkstr(mode), szv


def jobs(tier):
    js = []
    for nl in range(1, 17):
        for slash in (False, True):
            if nl == 16 and slash:
                continue
            js.append(dict(name='step_name_%d_%d' % (nl, slash), kind='step', namelen=nl, slash=slash, digs={}))
    for nl in (3, 5, 9, 15):
        for inner in range(1, nl - 1):
            for slash in (False, True):
                if inner % 2 == int(slash) or nl <= 5:
                    js.append(dict(name='step_slash_%d_%d_%d' % (nl, inner, slash), kind='step', namelen=nl, slash=slash, digs={}, inner=inner))
    for f, w in WIDTHS.items():
        for nd in range(0, w + 1):
            js.append(dict(name='step_%s_%d' % (f, nd), kind='step', namelen=3, slash=True, digs={f: nd}))
    for combo in itertools.product(range(0, 4), repeat=4):
        if tier == 'quick' and sum(combo) % 3:
            continue
        js.append(dict(name='step_all_%d%d%d%d' % combo, kind='step', namelen=2, slash=False, digs=dict(zip(('ts', 'uid', 'gid', 'size'), combo))))
    if tier == 'thorough':
        for (f1, w1), (f2, w2) in itertools.combinations(WIDTHS.items(), 2):
            js.append(dict(name='step_%s_%s_full' % (f1, f2), kind='step', namelen=1, slash=False, digs={f1: w1, f2: w2}))
    js.append(dict(name='magic', kind='magic'))
    maxsz = 3 if tier == 'quick' else 5
    for n in range(0, 4):
        for sizes in itertools.product(range(0, maxsz + 1), repeat=n):
            if n == 3 and tier == 'quick' and sum(sizes) % 4:
                continue
            js.append(dict(name='archive_%d_%s' % (n, ''.join(map(str, sizes))), kind='archive', n=n, sizes=sizes))
    return js


def run_job(env, job):
    k = job['kind']
    assume = []
    if k == 'step':
        hdr, name, ts, uid, gid, mode, size = header(job['namelen'], job['slash'], job['digs'], assume, inner=job.get('inner'))
        off = z3.BitVec('off', 64)
        assume += [off >= 0, off < (1 << 62)]
        return run_harness(env, PKG, 'VerifC13Step', [hdr, off, name, ts, uid, gid, mode, size], assume, unwind=80,
                           sample='one step, any offset < 2^62, name length %d%s, digit counts %r' % (job['namelen'], ' with /' if job['slash'] else '', job['digs']))
    if k == 'magic':
        rs = []
        for n in (0, 7, 8, 9):
            h = symstr('h', n)
            rs.append(run_harness(env, PKG, 'VerifC13Magic', [h], [], unwind=40, sample='global magic over any %d bytes' % n))
        return merge_results(rs)
    n, sizes = job['n'], job['sizes']
    ar = tuple(b'!<arch>\n')
    names, datas = [], []
    for i in range(3):
        if i < n:
            sub = []
            hdr, name, *_ = header(1 + i, i % 2 == 0, {}, sub)
            # rename the symbolic variables per member
            nm = symstr('n%d' % i, 1 + i)
            for c in nm:
                assume.append(in_set(c, NAMEC))
            nf = tuple(nm) + ((47,) if i % 2 == 0 else ())
            nf = nf + (32,) * (16 - len(nf))
            szs = tuple(str(sizes[i]).encode())
            h = nf + tuple(b'1342943816  ') + tuple(b'501   ') + tuple(b'20    ') + tuple(b'100644  ') + szs + (32,) * (10 - len(szs)) + (0x60, 0x0A)
            d = symstr('d%d' % i, sizes[i])
            ar += h + tuple(d) + ((10,) if sizes[i] % 2 else ())
            names.append(nm)
            datas.append(d)
        else:
            names.append(Str())
            datas.append(Str())
    args = [Str(ar), n]
    for i in range(3):
        args += [names[i], datas[i]]
    return run_harness(env, PKG, 'VerifC13Archive', args, assume, unwind=len(ar) + 80, sample='archive with %d members of sizes %r, symbolic names and data' % (n, sizes))


def validation_calls(env, seed):
    hdr = b'debian-binary   1342943816  0     0     100644  4         `\n'
    calls = [('VerifC13Step', [hdr, 8, b'debian-binary', 1342943816, 0, 0, b'100644', 4]),
             ('VerifC13Step', [b'x/              ' + b' ' * 12 + b' ' * 6 + b' ' * 6 + b'100644  ' + b'7         `\n', 100, b'x', 0, 0, 0, b'100644', 7]),
             ('VerifC13Magic', [b'!<arch>\n']), ('VerifC13Magic', [b'!<arch>\r']), ('VerifC13Magic', [b'!<ar'])]
    ar = b'!<arch>\n' + hdr + b'2.0\n' + b'a/              0           0     0     100644  3         `\nxyz\n'
    calls.append(('VerifC13Archive', [ar, 2, b'debian-binary', b'2.0\n', b'a', b'xyz', b'', b'']))
    calls.append(('VerifC13Archive', [b'!<arch>\n', 0, b'', b'', b'', b'', b'', b'']))
    return calls


if __name__ == '__main__':
    runner.main(sys.modules[__name__])
