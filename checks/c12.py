#!/usr/bin/env python3
# C12 - checksums computed and verified by the library are the true digests (wiring level).
import os, sys, random, itertools
sys.path.insert(0, os.path.dirname(os.path.abspath(__file__)))
from common import *

ID = 'C12'
PKG = 'hashio'
PKG_OF = {'VerifC12Verify': 'control', 'VerifC12BadHash': 'control', 'VerifC12Truncated': 'control', 'VerifC12WrongAlg': 'control'}
REPLAY_TIMEOUT_MS = 120000
ROOTS = [MOD + '/hashio.' + n for n in ('VerifC12Writers', 'VerifC12Readers', 'VerifC12Source', 'VerifC12Unknown')] + [MOD + '/control.' + n for n in ('VerifC12Verify', 'VerifC12BadHash', 'VerifC12Truncated', 'VerifC12WrongAlg')]
BOUNDS = {'quick': dict(L=3), 'thorough': dict(L=5)}
META = dict(
    functions_encoded=['hashio.GetHash', 'NewHasher', '(*Hasher).Name/Write/Size/Sum', 'NewHasherWriter(s)', 'NewHasherReader(s)', 'io.MultiWriter / io.TeeReader / io.ReadFull (from SSA)',
                       'control.FileHashFromHasher', '(*FileHash).Verifier', '(*verifier).Write/Close', '(*BestChecksums).Checksums', 'SHA256/SHA512FileHash.UnmarshalControl through control.Unmarshal'],
    stubs=['md5/sha1/sha256/sha512.New: abstract hashers that record every byte written in order; Sum = H_alg(bytes), one uninterpreted function per algorithm',
           'encoding/hex Encode/Decode (arithmetic model)', 'log.Fatalf (process-exit outcome, counted as a violation)', 'reflect model'],
    bounds={'quick': 'content of 0-3 symbolic bytes, every split into three writes/reads (the middle write through io.WriteString), with a length-and-digest checkpoint after every write; every ordered selection of 1-3 of the four algorithms (and the single-algorithm constructors) for the unsplit stream and six selections per other split; verifiers: entries from Checksums-Sha256, Checksums-Sha512, the best-checksum selector (each alone) and FileHashFromHasher for all four algorithms, content and recorded-digest preimage of 0-2 symbolic bytes (four length pairs in quick, all nine in thorough), the recorded hash in lower- or upper-case hex; malformed recorded hashes of 1-4 symbolic characters; recorded hash = the true digest of the content under each of the other three algorithms',
            'thorough': 'content up to 5 bytes'},
    outside_claim=['the digest functions themselves (stdlib, uninterpreted here): the claim is which bytes reach which algorithm, in which order, and how the result is compared'],
    assumptions=[])


def jobs(tier):
    L = BOUNDS[tier]['L']
    js = []
    sels = []
    for r in (1, 2, 3):
        for p in itertools.permutations(range(4), r):
            sels.append(p + (-1,) * (3 - r))
    for n in range(L + 1):
        for c1 in range(n + 1):
            for c2 in range(c1, n + 1):
                if tier == 'thorough' or (c1, c2) == (0, n):
                    use = sels
                else:
                    k = (7 * n + 3 * c1 + c2) % len(sels)
                    use = [sels[(k + 11 * i) % len(sels)] for i in range(6)]
                js.append(dict(name='io_%d_%d_%d' % (n, c1, c2), kind='io', n=n, c1=c1, c2=c2, sels=use))
    for n in range(1, L + 1):
        for c1 in range(n + 1):
            for c2 in range(c1, n + 1):
                js.append(dict(name='source_%d_%d_%d' % (n, c1, c2), kind='source', n=n, c1=c1, c2=c2))
    for kind in range(4):
        js.append(dict(name='truncated_%d' % kind, kind='truncated', k=kind))
    js.append(dict(name='unknown', kind='unknown'))
    for kind in range(8):
        for n, m in (itertools.product(range(3), range(3)) if tier == 'thorough' else ((0, 0), (1, 1), (2, 1), (1, 0))):
            js.append(dict(name='verify_%d_%d_%d' % (kind, n, m), kind='verify', k=kind, n=n, m=m))
    for kind in range(4):
        js.append(dict(name='badhash_%d' % kind, kind='badhash', k=kind))
    for kind in range(4):
        js.append(dict(name='wrongalg_%d' % kind, kind='wrongalg', k=kind))
    return js


def run_job(env, job):
    k = job['kind']
    if k == 'io':
        rs = []
        content = symstr('c', job['n'])
        for i, sel in enumerate(job['sels']):
            for fn in ('VerifC12Writers', 'VerifC12Readers'):
                for single in ((False, True) if sel[1] == -1 else (False,)):
                    rs.append(run_harness(env, PKG, fn, [content, job['c1'], job['c2'], sel[0], sel[1], sel[2], single], [], unwind=64,
                                          sample='%s: %d symbolic bytes cut at %d/%d, algorithms %r%s' % (fn, job['n'], job['c1'], job['c2'], sel, ' (single constructor)' if single else '')))
        return merge_results(rs)
    if k == 'source':
        rs = []
        content = symstr('c', job['n'])
        for sel, single in (((2, -1), True), ((2, -1), False), ((3, 0), False), ((1, 2), False)):
            rs.append(run_harness(env, PKG, 'VerifC12Source', [content, job['c1'], job['c2'], sel[0], sel[1], single, z3.Bool('eofWithData')], [], unwind=64,
                                  sample='chunked source (%d bytes cut at %d/%d), last chunk with or without io.EOF (symbolic), algorithms %r' % (job['n'], job['c1'], job['c2'], sel)))
        return merge_results(rs)
    if k == 'truncated':
        rs = []
        for n in (0, 1):
            for cut in (1, 2):
                content = symstr('c', n)
                rs.append(run_harness(env, 'control', 'VerifC12Truncated', [job['k'], content, cut, False], [], unwind=400, timeout_ms=300000,
                                      sample='entry kind %d: recorded hash = true digest of %d symbolic bytes minus its last %d byte(s)' % (job['k'], n, cut)))
        return merge_results(rs)
    if k == 'unknown':
        rs = []
        for n in range(0, 7):
            s = symstr('n', n)
            rs.append(run_harness(env, PKG, 'VerifC12Unknown', [s], [z3.ULT(c, 128) for c in s], unwind=64, sample='every ASCII algorithm name of length %d' % n))
        return merge_results(rs)
    if k == 'wrongalg':
        rs = []
        for n in (0, 1, 2):
            for walg in range(4):
                content = symstr('c', n)
                rs.append(run_harness(env, 'control', 'VerifC12WrongAlg', [job['k'], content, walg], [], unwind=400, timeout_ms=300000,
                                      sample='entry kind %d: recorded hash = true %s digest of the %d symbolic content bytes' % (job['k'], ['md5', 'sha1', 'sha256', 'sha512'][walg], n)))
        return merge_results(rs)
    if k == 'verify':
        content, other = symstr('c', job['n']), symstr('o', job['m'])
        return run_harness(env, 'control', 'VerifC12Verify', [job['k'], content, other, job['k'] < 4 and job['n'] == job['m']], [], unwind=400, timeout_ms=300000,
                           sample='entry kind %d, content of %d and recorded-digest preimage of %d symbolic bytes' % (job['k'], job['n'], job['m']))
    rs = []
    for n in (1, 2, 3, 4):
        r = symstr('r', n)
        rs.append(run_harness(env, 'control', 'VerifC12BadHash', [job['k'], r], [in_set(c, bytes(range(0x21, 0x7f))) for c in r], unwind=400,
                              sample='entry kind %d with a recorded hash of %d arbitrary printable characters' % (job['k'], n)))
    return merge_results(rs)


def replay_args(c):
    # digests are uninterpreted in the encoding: for the truncated-hash obligation the native replay searches for
    # content whose real digest has the zero tail the solver assumed
    if c['func'] == 'VerifC12Truncated':
        a = list(c['args'])
        a[3] = True
        return a
    return c['args']


def validation_calls(env, seed):
    # native digests are real, the interpreter's are uninterpreted: only structure-level calls can be compared
    return []


if __name__ == '__main__':
    runner.main(sys.modules[__name__])
