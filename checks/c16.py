#!/usr/bin/env python3
# C16 - debsig verification covers the package content that was actually loaded (plumbing level).
import os, sys, random, itertools
sys.path.insert(0, os.path.dirname(os.path.abspath(__file__)))
from common import *

ID = 'C16'
PKG = 'deb'
P = MOD + '/deb.'
ROOTS = [P + 'VerifC16']
REPLAY_TIMEOUT_MS = 300000
TXT = bytes(x for x in range(0x21, 0x7f))
META = dict(
    functions_encoded=['(*Deb).CheckDebsig', 'deb.Load', 'loadDeb', 'loadDeb2', 'loadDeb2Control', 'loadDeb2Data', 'io.MultiReader / io.SectionReader.Seek from SSA', 'the ar reader'],
    stubs=['idealised OpenPGP (engine/symgo/pgpmodel.py): a detached signature is the record (key, signed bytes); verification drains the signed-data reader and succeeds iff the key is in the keyring and the bytes are exactly the signed ones',
           'abstract codecs and tar as in C14', 'map iteration order: every permutation of the member map is explored at each range statement'],
    bounds={'quick': 'a package with debian-binary, control.tar.gz, data.tar (also .gz and .zst, also with a second package loaded before the payload is read) and _gpgorigin; symbolic maintainer (2 characters) and payload (2 bytes); signer one of two keys, each of four keyrings, asked role origin or another; the asked role as any byte string of the length of the signed role, the signed role with 1-2 arbitrary bytes behind or 1 in front, or cut short, for the roles origin and distribution (which fills the ar name column); after signing: nothing, one symbolic byte of the control paragraph, one of the payload, a signature over other bytes; a decoy second control.* or data.* member (tarball names, also empty ones, and the signed tarball parked under control.orig beside a foreign control.tar.gz); a second verification of the same Deb with a keyring that lacks the signer; every rotation of the iteration order of the member map (what the Go runtime produces for small maps) at each of the three range statements, independently',
            'thorough': 'the same scenarios; packages without a decoy member (four ar members) under every permutation of the member map at each range statement instead of every rotation'},
    outside_claim=['the cryptographic strength of OpenPGP (idealised)', 'real codecs (as in C14)'],
    assumptions=['idealised signatures'])


def jobs(tier):
    js = []
    for signer in (0, 1):
        for keyring in (1, 2, 3, 4):
            for ask in (b'origin', b'maint'):
                js.append(dict(name='clean_%d_%d_%s' % (signer, keyring, ask.decode()), signer=signer, keyring=keyring, ask=ask, tamper=0, decoy=0))
    for tamper in (1, 2, 3):
        for keyring in (2, 4):
            js.append(dict(name='tamper_%d_%d' % (tamper, keyring), signer=0, keyring=keyring, ask=b'origin', tamper=tamper, decoy=0))
    for second in (1, 3):
        js.append(dict(name='twice_%d' % second, signer=0, keyring=2, ask=b'origin', tamper=0, decoy=0, second=second))
    for decoy in (1, 2, 3, 4, 5):
        for keyring in (2, 4):
            js.append(dict(name='decoy_%d_%d' % (decoy, keyring), signer=0, keyring=keyring, ask=b'origin', tamper=0, decoy=decoy))
    # the asked role as arbitrary bytes: any string of the role's own length, the role with 1-2 arbitrary bytes
    # behind or in front of it, and the role cut short - for a short role and for one that fills the 16-byte ar
    # name column ("_gpg" + 12)
    # the data member in each natively writable encoding, with another package of the same encodings loaded before
    # the payload of the first is read
    for dext in (b'', b'.gz', b'.zst'):
        for inter in (False, True):
            if dext or inter:
                js.append(dict(name='dext%s_%d' % (dext.decode() or '.none', inter), signer=0, keyring=2, ask=b'origin', tamper=0, decoy=0, dext=dext, interleave=inter))
    js.append(dict(name='dext.zst_tamper2', signer=0, keyring=2, ask=b'origin', tamper=2, decoy=0, dext=b'.zst', interleave=True))
    for role in (b'origin', b'distribution'):
        for shape in ('same_len', 'suffix1', 'suffix2', 'prefix1', 'cut1', 'cut2', 'gpgprefix', 'membername'):
            js.append(dict(name='role_%s_%s' % (role.decode(), shape), signer=0, keyring=2, role=role, ask_shape=shape, ask=role, tamper=0, decoy=0))
    return js


def run_job(env, job):
    maint, payload = symstr('m', 2), symstr('p', 2)
    assume = [in_set(c, TXT) for c in maint]
    nb = z3.BitVec('nb', 8)
    if job['tamper'] == 1:
        assume.append(in_set(nb, TXT))
    role = job.get('role', b'origin')
    ask = job['ask']
    shape = job.get('ask_shape')
    if shape:
        x = tuple(symstr('r', 2))
        ask = Str({'same_len': tuple(symstr('a', len(role))), 'suffix1': tuple(role) + x[:1], 'suffix2': tuple(role) + x, 'prefix1': x[:1] + tuple(role),
                   'cut1': tuple(role[:-1]), 'cut2': tuple(role[:-2]) + x[:1], 'gpgprefix': tuple(b'_gpg') + tuple(role), 'membername': tuple(b'_gpg_gpg') + tuple(role)}[shape])
    r = run_harness(env, PKG, 'VerifC16', [job['signer'], job['keyring'], ask, job['tamper'], job['decoy'], maint, payload, nb, 1, job.get('second', 0), role, job.get('dext', b''), job.get('interleave', False)], assume, unwind=600, unsigned=(7,),
                    interp_kw=dict(map_orders='rot' if (env.tier == 'quick' or job['decoy'] or job.get('interleave') or job.get('second')) else 'perm', map_order_filter='ArEntry'), timeout_ms=300000,
                    sample=dict(signer=job['signer'], keyring_mode=job['keyring'], signed_role=role.decode(), asked_role=shape or job['ask'].decode(), altered_after_signing=job['tamper'], decoy_member=job['decoy'], map_orders='every rotation (quick) / permutation (thorough) of the member map at each of the three range statements'))
    gw = [g for g in r.get('global_writes', ()) if 'verif' not in g]
    if gw:
        # loading and verifying must not keep state in package-level variables: a second package that is open at
        # the same time would share it (replayed natively with a second package loaded before the payload of the first is read)
        r['cex'].append(dict(func='VerifC16', args=[job['signer'], job['keyring'], bytes(role), 0, 0, b'Mm', b'pp', 0, 1, 0, bytes(role), job.get('dext') or b'.zst', True], kind='ret', code=20,
                             msg='package-level variables written while loading / verifying: ' + ', '.join(gw)))
        r['status'] = 'viol'
    r['samples'][0]['package_level_stores'] = gw
    return r


def replay_args(c):
    a = list(c['args'])
    a[8] = 200       # native map iteration order is random: repeat until the order of the counterexample shows up
    return a


def validation_calls(env, seed):
    calls = [('VerifC16', [0, 2, b'origin', 0, 0, b'Mm', b'pp', 0, 1, 0, b'origin', b'.zst', True]), ('VerifC16', [0, 2, b'origin', 0, 0, b'Mm', b'pp', 0, 1, 0, b'origin', b'.gz', True]), ('VerifC16', [0, 2, b'distributions', 0, 0, b'Mm', b'pp', 0, 1, 0, b'distribution', b'', False]), ('VerifC16', [0, 2, b'distribution', 0, 0, b'Mm', b'pp', 0, 1, 0, b'distribution', b'', False]), ('VerifC16', [0, 2, b'origin', 0, 0, b'Mm', b'pp', 0, 1, 0, b'origin', b'', False]), ('VerifC16', [1, 4, b'origin', 0, 0, b'Mm', b'pp', 0, 1, 0, b'origin', b'', False]), ('VerifC16', [0, 3, b'origin', 0, 0, b'Mm', b'pp', 0, 1, 0, b'origin', b'', False]),
             ('VerifC16', [0, 2, b'maint', 0, 0, b'Mm', b'pp', 0, 1, 0, b'origin', b'', False]), ('VerifC16', [0, 2, b'origin', 1, 0, b'Mm', b'pp', 0x41, 1, 0, b'origin', b'', False]), ('VerifC16', [0, 2, b'origin', 2, 0, b'Mm', b'pp', 0x41, 1, 0, b'origin', b'', False]),
             ('VerifC16', [0, 2, b'origin', 3, 0, b'Mm', b'pp', 0, 1, 0, b'origin', b'', False])]
    return calls


if __name__ == '__main__':
    runner.main(sys.modules[__name__])
