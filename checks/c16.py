#!/usr/bin/env python3
# C16 - debsig verification covers the package content that was actually loaded (plumbing level).
import os, sys, random, itertools
sys.path.insert(0, os.path.dirname(os.path.abspath(__file__)))
from common import *

ID = 'C16'
PKG = 'deb'
P = MOD + '/deb.'
ROOTS = [P + 'VerifC16']
REPLAY_TIMEOUT_MS = 300000
TXT = bytes(x for x in range(0x21, 0x7f))
META = dict(
    functions_encoded=['(*Deb).CheckDebsig', 'deb.Load', 'loadDeb', 'loadDeb2', 'loadDeb2Control', 'loadDeb2Data', 'io.MultiReader / io.SectionReader.Seek from SSA', 'the ar reader'],
    stubs=['idealised OpenPGP (engine/symgo/pgpmodel.py): a detached signature is the record (key, signed bytes); verification drains the signed-data reader and succeeds iff the key is in the keyring and the bytes are exactly the signed ones',
           'abstract codecs and tar as in C14', 'map iteration order: every permutation of the member map is explored at each range statement'],
    bounds={'quick': 'a package with debian-binary, control.tar.gz, data.tar and _gpgorigin; symbolic maintainer (2 characters) and payload (2 bytes); signer one of two keys, each of four keyrings, asked role origin or another; after signing: nothing, one symbolic byte of the control paragraph, one of the payload, a signature over other bytes; a decoy second control.* or data.* member (tarball names, and the signed tarball parked under control.orig beside a foreign control.tar.gz); a second verification of the same Deb with a keyring that lacks the signer; every rotation of the iteration order of the member map (what the Go runtime produces for small maps) at each of the three range statements, independently',
            'thorough': 'the same with 3-character leaves and both decoys together'},
    outside_claim=['the cryptographic strength of OpenPGP (idealised)', 'real codecs (as in C14)'],
    assumptions=['idealised signatures'])


def jobs(tier):
    js = []
    for signer in (0, 1):
        for keyring in (1, 2, 3, 4):
            for ask in (b'origin', b'maint'):
                js.append(dict(name='clean_%d_%d_%s' % (signer, keyring, ask.decode()), signer=signer, keyring=keyring, ask=ask, tamper=0, decoy=0))
    for tamper in (1, 2, 3):
        for keyring in (2, 4):
            js.append(dict(name='tamper_%d_%d' % (tamper, keyring), signer=0, keyring=keyring, ask=b'origin', tamper=tamper, decoy=0))
    for second in (1, 3):
        js.append(dict(name='twice_%d' % second, signer=0, keyring=2, ask=b'origin', tamper=0, decoy=0, second=second))
    for decoy in (1, 2, 3):
        for keyring in (2, 4):
            js.append(dict(name='decoy_%d_%d' % (decoy, keyring), signer=0, keyring=keyring, ask=b'origin', tamper=0, decoy=decoy))
    return js


def run_job(env, job):
    maint, payload = symstr('m', 2), symstr('p', 2)
    assume = [in_set(c, TXT) for c in maint]
    nb = z3.BitVec('nb', 8)
    if job['tamper'] == 1:
        assume.append(in_set(nb, TXT))
    return run_harness(env, PKG, 'VerifC16', [job['signer'], job['keyring'], job['ask'], job['tamper'], job['decoy'], maint, payload, nb, 1, job.get('second', 0)], assume, unwind=600, unsigned=(7,),
                       interp_kw=dict(map_orders='rot' if env.tier == 'quick' else 'perm', map_order_filter='ArEntry'), timeout_ms=300000,
                       sample=dict(signer=job['signer'], keyring_mode=job['keyring'], asked_role=job['ask'].decode(), altered_after_signing=job['tamper'], decoy_member=job['decoy'], map_orders='every rotation (quick) / permutation (thorough) of the member map at each of the three range statements'))


def replay_args(c):
    a = list(c['args'])
    a[8] = 200       # native map iteration order is random: repeat until the order of the counterexample shows up
    return a


def validation_calls(env, seed):
    calls = [('VerifC16', [0, 2, b'origin', 0, 0, b'Mm', b'pp', 0, 1, 0]), ('VerifC16', [1, 4, b'origin', 0, 0, b'Mm', b'pp', 0, 1, 0]), ('VerifC16', [0, 3, b'origin', 0, 0, b'Mm', b'pp', 0, 1, 0]),
             ('VerifC16', [0, 2, b'maint', 0, 0, b'Mm', b'pp', 0, 1, 0]), ('VerifC16', [0, 2, b'origin', 1, 0, b'Mm', b'pp', 0x41, 1, 0]), ('VerifC16', [0, 2, b'origin', 2, 0, b'Mm', b'pp', 0x41, 1, 0]),
             ('VerifC16', [0, 2, b'origin', 3, 0, b'Mm', b'pp', 0, 1, 0])]
    return calls


if __name__ == '__main__':
    runner.main(sys.modules[__name__])
