#!/usr/bin/env python3
# C06 - architecture and version restrictions evaluate per Debian semantics.
import os, sys, random, itertools
sys.path.insert(0, os.path.dirname(os.path.abspath(__file__)))
from common import *

ID = 'C06'
PKG = 'dependency'
D = MOD + '/dependency.'
ROOTS = [D + n for n in ('VerifC06Is', 'VerifC06Set', 'VerifC06Select', 'VerifC06Sat')]
BOUNDS = {'quick': dict(NN=3, UV=2, RV=1, SET=2), 'thorough': dict(NN=3, UV=3, RV=1, SET=3)}
JOB_TIMEOUT_S = {'quick': 600, 'thorough': 3600}     # the largest sat job takes about 150 s of CPU on the unchanged tree; a table-driven rewrite of SatisfiedBy took more than 300
NCH = b'0123456789.~:-a '
META = dict(
    functions_encoded=['(*Arch).IsWildcard', '(*Arch).Is', '(*ArchSet).Matches', '(*Dependency).GetPossibilities', '(*Dependency).GetAllPossibilities',
                       '(*Dependency).GetSubstvars', 'VersionRelation.SatisfiedBy', 'version.Parse', 'version.Compare', 'version.verrevcmp'],
    stubs=['strings.* models as in C03'],
    bounds={'quick': 'architectures: the atomic all, or a triple of symbolic 3-byte components each either "any" or an arbitrary name other than any/all; lists of 0-2 entries with symbolic negation; dependencies of 2 relations x 3 alternatives with symbolic substvar/empty-list/negation flags, a multiarch qualifier, a version constraint and a build-profile restriction present on all / none / alternating alternatives (14 patterns), symbolic 1-byte cpu and qualifier names, package names over {a,b} (alternatives and relations may share a name); SatisfiedBy asked twice; (op, N, V): op any string of length 0-2 over {<,>,=,x}, N any string of length <= 3 over [0-9.~:-a ], V with any 64-bit epoch, upstream <= 2, revision <= 1',
            'thorough': 'lists of 0-3 entries; V upstream <= 3 (N up to 4 characters ran for more than 30 minutes per job and is not registered)'},
    outside_claim=['"all" as one component of a mixed triple (excluded by the quantifier)', 'wildcard against wildcard (the statement is silent)', 'longer version numbers'],
    assumptions=['data independence: the code only tests components for equality with "any", "all" and with each other, so 3-byte symbolic names are exhaustive up to renaming',
                 'dependency values are shaped as the parser builds them (non-substvar alternatives carry a non-nil architecture set)'])


def arch_sym(sym_name, assume, mode):
    """mode 'all' -> concrete all-all-all ; 'sym' -> three symbolic components, each 'any' or not in {any, all}"""
    if mode == 'all':
        return [mkstr('all')] * 3
    comps = []
    for k in range(3):
        s = symstr('%s%d' % (sym_name, k), 3)
        is_any = z3.And(s[0] == ord('a'), s[1] == ord('n'), s[2] == ord('y'))
        is_all = z3.And(s[0] == ord('a'), s[1] == ord('l'), s[2] == ord('l'))
        assume.append(z3.Or(is_any, z3.Not(is_all)))
        comps.append(s)
    return comps


def jobs(tier):
    b = BOUNDS[tier]
    js = []
    for ma in ('all', 'sym'):
        for mb in ('all', 'sym'):
            js.append(dict(name='is_%s_%s' % (ma, mb), kind='is', ma=ma, mb=mb))
    for n in range(b['SET'] + 1):
        for modes in itertools.product(('all', 'sym'), repeat=n + 1):
            js.append(dict(name='set_%d_%s' % (n, ''.join(m[0] for m in modes)), kind='set', n=n, modes=modes))
    # qualifier / version / profile presence per alternative (6-bit masks): the eight uniform combinations and each
    # kind alone on alternating alternatives
    masks = [(a * 63, b * 63, c * 63) for a in (0, 1) for b in (0, 1) for c in (0, 1)]
    for m in (42, 21):
        masks += [(m, 0, 0), (0, m, 0), (0, 0, m)]
    for qf, vr, stg in masks:
        js.append(dict(name='select_%d_%d_%d' % (qf, vr, stg), kind='select', qf=qf, vr=vr, st=stg))
    for lo in range(0, 3):
        for ln in range(0, b['NN'] + 1):
            for lu in range(0, b['UV'] + 1):
                for lr in range(0, b['RV'] + 1):
                    js.append(dict(name='sat_%d_%d_%d_%d' % (lo, ln, lu, lr), kind='sat', lo=lo, ln=ln, lu=lu, lr=lr))
    js.sort(key=lambda j: -(j.get('ln', 0) * 3 + j.get('lu', 0) * 2 + j.get('lo', 0)))
    return js


def run_job(env, job):
    k = job['kind']
    assume = []
    if k == 'is':
        args = arch_sym('a', assume, job['ma']) + arch_sym('b', assume, job['mb'])
        return run_harness(env, PKG, 'VerifC06Is', args, assume, unwind=16, sample='Is on (%s, %s) architectures' % (job['ma'], job['mb']))
    if k == 'set':
        n = job['n']
        notv = z3.Bool('not')
        ents = []
        for i in range(3):
            ents += arch_sym('e%d' % i, assume, job['modes'][i]) if i < n else [mkstr('xxx')] * 3
        o = arch_sym('o', assume, job['modes'][n])
        return run_harness(env, PKG, 'VerifC06Set', [n, notv] + ents + o, assume, unwind=16, sample='ArchSet.Matches with %d entries %r' % (n, job['modes']))
    if k == 'select':
        bools = [z3.Bool('%s%d' % (nm, i)) for nm in ('sv', 'emp', 'not') for i in range(6)]
        ents = [symstr('e%d' % i, 1) for i in range(6)]
        o = symstr('o', 1)
        q = symstr('q', 1)
        for s in ents + [o, q]:
            assume.append(in_set(s[0], b'abc'))
        extra = [bool((job[nm] >> i) & 1) for nm in ('qf', 'vr', 'st') for i in range(6)]
        nm = symstr('nm', 6)
        assume += [in_set(c, b'ab') for c in nm]
        return run_harness(env, PKG, 'VerifC06Select', bools + ents + [o] + extra + [q, nm], assume, unwind=16,
                           sample='selection over 2 relations x 3 alternatives, symbolic substvar/empty/negation flags, qualifier/version/profile presence masks %d/%d/%d, cpu and qualifier names over {a,b,c}' % (job['qf'], job['vr'], job['st']))
    op, n = symstr('op', job['lo']), symstr('n', job['ln'])
    uv, rv = symstr('uv', job['lu']), symstr('rv', job['lr'])
    ev = z3.BitVec('ev', 64)
    assume += [in_set(c, b'<>=x') for c in op] + [in_set(c, NCH) for c in n] + [in_set(c, b'0123456789.~a') for c in list(uv) + list(rv)]
    return run_harness(env, PKG, 'VerifC06Sat', [op, n, ev, uv, rv], assume, unwind=40, unsigned=(2,),
                       sample='SatisfiedBy with |op|=%d |N|=%d V=(epoch, %d, %d)' % (job['lo'], job['ln'], job['lu'], job['lr']))


def validation_calls(env, seed):
    rnd = random.Random(seed)
    names = [b'any', b'all', b'gnu', b'amd', b'lin', b'x']
    calls = []
    for _ in range(30):
        calls.append(('VerifC06Is', [rnd.choice(names) for _ in range(6)]))
    for _ in range(15):
        calls.append(('VerifC06Set', [rnd.randint(0, 3), rnd.random() < .5] + [rnd.choice(names) for _ in range(12)]))
    for _ in range(15):
        calls.append(('VerifC06Select', [rnd.random() < .4 for _ in range(18)] + [rnd.choice([b'a', b'b']) for _ in range(7)] +
                      [rnd.random() < .4 for _ in range(18)] + [rnd.choice([b'a', b'b']), bytes(rnd.choice(b'ab') for _ in range(6))]))
    for op in (b'<<', b'<=', b'=', b'>=', b'>>', b'', b'x', b'=='):
        for n, v in ((b'1.0', b'1.0'), (b'1.0', b'1.1'), (b'2', b'1'), (b'a', b'1'), (b'1.0-0', b'1.0'), (b'1.00', b'1.0')):
            calls.append(('VerifC06Sat', [op, n, 0, v, b'']))
    return calls


if __name__ == '__main__':
    runner.main(sys.modules[__name__])
