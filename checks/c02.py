#!/usr/bin/env python3
# C02 - version comparison is a total preorder, so sorting is well defined.
import os, sys, random, itertools
sys.path.insert(0, os.path.dirname(os.path.abspath(__file__)))
from common import *

ID = 'C02'
PKG = 'version'
V = MOD + '/version.'
ROOTS = [V + n for n in ('VerifC02Laws', 'VerifC02Less', 'VerifC02Sort3', 'VerifC02Sort4')]
ALPH = b'ABCDEFGHIJKLMNOPQRSTUVWXYZabcdefghijklmnopqrstuvwxyz0123456789.+~:-'
BOUNDS = {'quick': dict(U=2, R=1, K=3, SU=2, SR=0), 'thorough': dict(U=2, R=1, K=3, SU=2, SR=1, U3=3, R2=2)}
JOB_TIMEOUT_S = {'quick': 300, 'thorough': 1200}
META = dict(
    functions_encoded=['version.Compare', 'version.verrevcmp', 'version.order', 'version.cisdigit', 'version.cisalpha', 'version.Slice.Len', 'version.Slice.Swap',
                       'version.Slice.Less/Len/Swap', 'sort.Sort', 'sort.pdqsort (insertion-sort path)', 'sort.insertionSort'],
    stubs=['math/bits.Len (concrete)'],
    bounds={'quick': 'laws (also on digit runs beyond 64 bits: 1-2 symbolic digits in front of a shared 18-19 digit tail); any 64-bit epochs, upstream <= 2, revision <= 1 characters over [A-Za-z0-9.+~:-] for each of a, b, c (all length tuples); the sort adapter (Less, Len, Swap) against Compare on every pair within the same bounds; sort: slices of 3 versions with upstream length <= 2 (all elements the same length), no revision, any epochs',
            'thorough': 'laws: as quick (upstream <= 2, revision <= 1, all 216 length triples), plus upstream = 3 (revision <= 1) and revision = 2 (upstream <= 2) for triples whose three members have the same shape; Less against Compare: upstream <= 3, revision <= 2, all 144 pair shapes; sort: slices of 3 versions, upstream <= 2, revision <= 1 (slices of 4 versions went over 20 minutes of CPU per job and are not registered)'},
    outside_claim=['longer components', 'slices of more than 12 elements (pdqsort partitioning / heapsort paths are stdlib code whose contract - correct for any strict weak order - is trusted; the laws are that contract\'s precondition)'],
    assumptions=['sortedness is judged by the reference order (harness specCompare), the permutation property by field-wise equality'])


def jobs(tier):
    b = BOUNDS[tier]
    js = []
    for lens in itertools.product(range(b['U'] + 1), range(b['R'] + 1), repeat=3):
        js.append(dict(name='laws_' + '_'.join(map(str, lens)), kind='laws', lens=lens))
    if 'U3' in b:
        # longer components for triples whose members all have the same shape only: upstream = 3 (revision <= 1) and
        # revision = 2 (upstream <= 2).  The full products (729 and 1728 shapes) did not finish in 75 and 135 minutes.
        seen = {j['lens'] for j in js}
        for lens in [(b['U3'], r) * 3 for r in range(2)] + [(u, b['R2']) * 3 for u in range(b['U'] + 1)]:
            if lens not in seen:
                js.append(dict(name='laws_' + '_'.join(map(str, lens)), kind='laws', lens=lens))
    for tail in (b'0' * 19, b'9' * 19, b'0' * 18):
        for heads in ((1, 1, 1), (1, 2, 1)) if tier == 'quick' else ((1, 1, 1), (1, 2, 1), (2, 2, 2), (2, 1, 0)):
            js.append(dict(name='lawslong_%s_%s' % (tail[:1].decode() + str(len(tail)), ''.join(map(str, heads))), kind='lawslong', tail=tail, heads=heads, lens=(0,)))
    for lens in itertools.product(range(b.get('U3', b['U']) + 1), range(b.get('R2', b['R']) + 1), repeat=2):
        js.append(dict(name='less_' + '_'.join(map(str, lens)), kind='less', lens=lens))
    for u in range(b['SU'] + 1):
        for r in range(b['SR'] + 1):
            js.append(dict(name='sort%d_%d_%d' % (b['K'], u, r), kind='sort', K=b['K'], u=u, r=r))
            if b['K'] == 4:
                js.append(dict(name='sort3_%d_%d' % (u, r), kind='sort', K=3, u=u, r=r))
    js.sort(key=lambda j: -(sum(j.get('lens', ())) + 10 * j.get('u', 0) * j.get('K', 0)))
    return js


def run_job(env, job):
    args, assume, unsigned = [], [], []
    if job['kind'] == 'lawslong':
        # digit runs far beyond 64 bits: symbolic digit heads in front of a long shared concrete digit tail
        for i, nm in enumerate('abc'):
            e = z3.BitVec('e' + nm, 64)
            h = symstr('h' + nm, job['heads'][i])
            assume += [in_set(c, b'0123456789') for c in h]
            unsigned.append(len(args))
            args += [e, Str(tuple(h) + tuple(job['tail'])), Str()]
        assume += [args[0] == args[3], args[3] == args[6]]
        return run_harness(env, PKG, 'VerifC02Laws', args, assume, unwind=4 * 24 + 8, merge=not job.get('enum'), timeout_ms=900000, interp_kw=dict(merge_ints=False),
                           unsigned=unsigned, sample='order laws on three versions with equal epochs whose upstream is %r symbolic digits followed by %r' % (job['heads'], job['tail'].decode()))
    if job['kind'] == 'laws':
        for i, nm in enumerate('abc'):
            u, r = job['lens'][2 * i], job['lens'][2 * i + 1]
            e = z3.BitVec('e' + nm, 64)
            su, sr = symstr('u' + nm, u), symstr('r' + nm, r)
            assume += [in_set(c, ALPH) for c in list(su) + list(sr)]
            unsigned.append(len(args))
            args += [e, su, sr]
        return run_harness(env, PKG, 'VerifC02Laws', args, assume, unwind=4 * max(job['lens']) + 8, merge=not job.get('enum'), timeout_ms=900000, interp_kw=dict(merge_ints=False),
                           unsigned=unsigned, sample='order laws on (a,b,c) with (upstream,revision) lengths %r, 64-bit epochs' % (job['lens'],))
    if job['kind'] == 'less':
        for i, nm in enumerate('ab'):
            u, r = job['lens'][2 * i], job['lens'][2 * i + 1]
            e = z3.BitVec('e' + nm, 64)
            su, sr = symstr('u' + nm, u), symstr('r' + nm, r)
            assume += [in_set(c, ALPH) for c in list(su) + list(sr)]
            unsigned.append(len(args))
            args += [e, su, sr]
        return run_harness(env, PKG, 'VerifC02Less', args, assume, unwind=4 * max(job['lens']) + 8, merge=not job.get('enum'), timeout_ms=900000, interp_kw=dict(merge_ints=False),
                           unsigned=unsigned, sample='Less against Compare on (a,b) with (upstream,revision) lengths %r, 64-bit epochs' % (job['lens'],))
    K = job['K']
    for i in range(K):
        e = z3.BitVec('e%d' % i, 64)
        su, sr = symstr('u%d' % i, job['u']), symstr('r%d' % i, job['r'])
        assume += [in_set(c, ALPH) for c in list(su) + list(sr)]
        unsigned.append(len(args))
        args += [e, su, sr]
    return run_harness(env, PKG, 'VerifC02Sort%d' % K, args, assume, unwind=4 * max(job['u'], job['r']) + 16, merge=not job.get('enum'), timeout_ms=1800000, interp_kw=dict(merge_ints=False),
                       unsigned=unsigned, sample='sort.Sort on %d versions with upstream length %d, revision length %d, 64-bit epochs' % (K, job['u'], job['r']))


def validation_calls(env, seed):
    rnd = random.Random(seed)
    pool = [b'1.0', b'1.0~rc1', b'09', b'9', b'a', b'~', b'', b'1', b'0', b'00', b'+', b'1-1', b'Z']
    calls = []
    for _ in range(25):
        t = []
        for _ in range(3):
            t += [rnd.choice([0, 1, 2**64 - 1]), rnd.choice(pool), rnd.choice(pool[:9])]
        calls.append(('VerifC02Laws', t))
        calls.append(('VerifC02Sort3', t))
        calls.append(('VerifC02Less', t[:6]))
    return calls


if __name__ == '__main__':
    runner.main(sys.modules[__name__])
