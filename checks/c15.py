#!/usr/bin/env python3
# C15 - ar and .deb readers terminate and stay consistent on arbitrary bytes.
import os, sys, random, itertools
sys.path.insert(0, os.path.dirname(os.path.abspath(__file__)))
from common import *

ID = 'C15'
PKG = 'deb'
P = MOD + '/deb.'
ROOTS = [P + n for n in ('VerifC15Step', 'VerifC15Iterate')]
FIELDS = dict(name=(0, 16), ts=(16, 28), uid=(28, 34), gid=(34, 40), mode=(40, 48), size=(48, 58), magic=(58, 60))
GOOD = b'debian-binary   1342943816  0     0     100644  4         `\n'
META = dict(
    functions_encoded=['(*Ar).Next', 'deb.parseArEntry', 'deb.toDecimal', 'deb.LoadAr', 'deb.checkAr', 'io.NewSectionReader', 'strconv.Atoi', 'strings.TrimSpace', 'bytes.Reader.ReadAt'],
    stubs=['io.ReaderAt for the step: serves count (<= 60) arbitrary bytes at the current offset, an error iff count < 60 (io.ReaderAt contract)'],
    bounds={'quick': 'one step of Next from any offset in [0, 2^62), the other columns holding a valid header: each column in turn with 3 arbitrary bytes (all 256 values) left-aligned, 2 arbitrary bytes right-aligned, and at full width over [0-9 +-a] (name also / and .); the magic with 2 arbitrary bytes; size (2 arbitrary bytes) and magic together; all four numeric columns together with 2 bytes over [0-9 +-a]; short reads of 0, 1, 59 bytes; whole-archive iteration over every byte string of length <= 3 after the global magic and over a valid member followed by up to 2 arbitrary bytes',
            'thorough': 'size and magic and one more column together; numeric columns together at 4 bytes'},
    outside_claim=['the decompressors and archive/tar on hostile streams (also excluded by the statement)', 'offsets beyond 2^62'],
    assumptions=['progress of at least 60 bytes per successful step bounds the number of steps by len/60; a step depends only on the bytes served and the offset, so repeated loading gives the same outcome'])


RESTR = b'0123456789 -+a'


def jobs(tier):
    js = []
    W = 3 if tier == 'quick' else 4
    for f in FIELDS:
        if f == 'magic':
            js.append(dict(name='step_magic', kind='step', cols=[('magic', 'any', None, 'l')], count=60))
            continue
        js.append(dict(name='step_%s_any%dl' % (f, W), kind='step', cols=[(f, 'any', W, 'l')], count=60))
        js.append(dict(name='step_%s_any2r' % f, kind='step', cols=[(f, 'any', 2, 'r')], count=60))
        js.append(dict(name='step_%s_full' % f, kind='step', cols=[(f, 'restr', None, 'l')], count=60))
    js.append(dict(name='step_size_magic', kind='step', cols=[('size', 'any', 2, 'l'), ('magic', 'any', None, 'l')], count=60))
    js.append(dict(name='step_numeric', kind='step', cols=[(f, 'restr', 2 if tier == 'quick' else 3, 'l') for f in ('ts', 'uid', 'gid', 'size')], count=60))
    if tier == 'thorough':
        for f in ('ts', 'uid', 'gid', 'mode'):
            js.append(dict(name='step_size_magic_' + f, kind='step', cols=[('size', 'any', 2, 'l'), ('magic', 'any', None, 'l'), (f, 'any', 2, 'l')], count=60))
    for c in (0, 1, 59):
        js.append(dict(name='short_%d' % c, kind='step', cols=[('magic', 'any', None, 'l')], count=c))
    for n in range(0, 4):
        js.append(dict(name='iter_raw_%d' % n, kind='iter', pre=b'!<arch>\n', n=n))
    for n in range(0, 3):
        js.append(dict(name='iter_member_%d' % n, kind='iter', pre=b'!<arch>\n' + GOOD + b'2.0\n', n=n))
    js.append(dict(name='iter_nomagic', kind='iter', pre=b'', n=3))
    return js


def run_job(env, job):
    assume = []
    if job['kind'] == 'step':
        hdr = list(GOOD)
        for f, alph, w, align in job['cols']:
            lo, hi = FIELDS[f]
            w = w or (hi - lo)
            s = symstr(f, w)
            if alph == 'restr':
                assume += [in_set(c, RESTR + (b'/.' if f == 'name' else b'')) for c in s]
            pad = [32] * (hi - lo - w)
            hdr[lo:hi] = (list(s) + pad) if align == 'l' else (pad + list(s))
        off = z3.BitVec('off', 64)
        assume += [off >= 0, off < (1 << 62)]
        return run_harness(env, PKG, 'VerifC15Step', [Str(hdr), job['count'], off], assume, unwind=80,
                           sample='one step: columns %r (any = all 256 byte values, restr = [0-9 +-a]), %d bytes served, any offset < 2^62' % (job['cols'], job['count']))
    s = symstr('x', job['n'])
    return run_harness(env, PKG, 'VerifC15Iterate', [Str(tuple(job['pre']) + tuple(s))], [], unwind=120,
                       sample='whole-archive iteration: %d known bytes followed by %d arbitrary bytes' % (len(job['pre']), job['n']))


def validation_calls(env, seed):
    rnd = random.Random(seed)
    calls = [('VerifC15Step', [GOOD, 60, 8]), ('VerifC15Step', [GOOD[:58] + b'`X', 60, 8]), ('VerifC15Step', [GOOD[:58] + b'XY', 60, 8]),
             ('VerifC15Step', [GOOD[:48] + b'-60       `\n', 60, 8]), ('VerifC15Step', [GOOD, 59, 8]), ('VerifC15Step', [GOOD, 0, 8])]
    for _ in range(10):
        h = bytearray(GOOD)
        for _ in range(3):
            h[rnd.randrange(60)] = rnd.randrange(256)
        calls.append(('VerifC15Step', [bytes(h), 60, rnd.randrange(1 << 40)]))
    for a in (b'', b'!<arch>\n', b'!<arch>\n\n', b'!<arch>\n' + GOOD + b'2.0\n', b'!<arch>\n' + GOOD + b'2.0\n\n', b'!<arch>\n' + GOOD):
        calls.append(('VerifC15Iterate', [a]))
    return calls


if __name__ == '__main__':
    runner.main(sys.modules[__name__])
