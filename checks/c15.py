#!/usr/bin/env python3
# C15 - ar and .deb readers terminate and stay consistent on arbitrary bytes.
import os, sys, random, itertools
sys.path.insert(0, os.path.dirname(os.path.abspath(__file__)))
from common import *

ID = 'C15'
PKG = 'deb'
P = MOD + '/deb.'
ROOTS = [P + n for n in ('VerifC15Step', 'VerifC15Iterate', 'VerifC15Deb')]
FIELDS = dict(name=(0, 16), ts=(16, 28), uid=(28, 34), gid=(34, 40), mode=(40, 48), size=(48, 58), magic=(58, 60))
GOOD = b'debian-binary   1342943816  0     0     100644  4         `\n'
META = dict(
    functions_encoded=['(*Ar).Next', 'deb.parseArEntry', 'deb.toDecimal', 'deb.LoadAr', 'deb.checkAr', 'deb.Load', 'deb.loadDeb', 'deb.loadDeb2', 'deb.loadDeb2Control', 'deb.loadDeb2Data', '(*ArEntry).IsTarfile/Tarfile', 'deb.DecompressorFor', 'io.NewSectionReader', 'strconv.Atoi', 'strings.TrimSpace', 'bytes.Reader.ReadAt'],
    stubs=['io.ReaderAt for the step: serves count (<= 60) arbitrary bytes at the current offset, an error iff count < 60 (io.ReaderAt contract)',
           'archive/tar as in C14: an abstract entry list; a member that is not such a container is a malformed tarball (the real archive/tar on hostile bytes is outside the claim, as the statement says for the decoders)'],
    bounds={'quick': 'one step of Next from any offset in [0, 2^62), the other columns holding a valid header: each column in turn with 3 arbitrary bytes (all 256 values) left-aligned, 2 arbitrary bytes right-aligned, and at full width over [0-9 +-a] (name also / and .); the magic with 2 arbitrary bytes; size (2 arbitrary bytes) and magic together; all four numeric columns together with 2 bytes over [0-9 +-a]; short reads of 0, 1, 59 bytes; whole-archive iteration over every byte string of length <= 3 after the global magic and over a valid member followed by up to 2 arbitrary bytes; .deb loading: debian-binary holding 0-3 arbitrary bytes or (0-2 bytes, newline, 0-2 bytes), each member name with 2 arbitrary bytes in front of, behind or instead of it, a control member of 0-2 arbitrary bytes, 8 reorderings / duplications / omissions of the members, arbitrary bytes under each compressed member name, a non-tarball sibling member under every rotation of the member map, a valid package cut at every offset',
            'thorough': 'debian-binary up to 4 bytes, names 3, raw control 3; size and magic and one more column together; numeric columns together at 4 bytes'},
    outside_claim=['the decompressors and archive/tar on hostile streams (also excluded by the statement)', 'offsets beyond 2^62'],
    assumptions=['progress of at least 60 bytes per successful step bounds the number of steps by len/60; a step depends only on the bytes served and the offset, so repeated loading gives the same outcome'])


RESTR = b'0123456789 -+a'


def jobs(tier):
    js = []
    W = 3 if tier == 'quick' else 4
    for f in FIELDS:
        if f == 'magic':
            js.append(dict(name='step_magic', kind='step', cols=[('magic', 'any', None, 'l')], count=60))
            continue
        js.append(dict(name='step_%s_any%dl' % (f, W), kind='step', cols=[(f, 'any', W, 'l')], count=60))
        js.append(dict(name='step_%s_any2r' % f, kind='step', cols=[(f, 'any', 2, 'r')], count=60))
        js.append(dict(name='step_%s_full' % f, kind='step', cols=[(f, 'restr', None, 'l')], count=60))
    js.append(dict(name='step_size_magic', kind='step', cols=[('size', 'any', 2, 'l'), ('magic', 'any', None, 'l')], count=60))
    js.append(dict(name='step_numeric', kind='step', cols=[(f, 'restr', 2 if tier == 'quick' else 3, 'l') for f in ('ts', 'uid', 'gid', 'size')], count=60))
    if tier == 'thorough':
        for f in ('ts', 'uid', 'gid', 'mode'):
            js.append(dict(name='step_size_magic_' + f, kind='step', cols=[('size', 'any', 2, 'l'), ('magic', 'any', None, 'l'), (f, 'any', 2, 'l')], count=60))
    for c in (0, 1, 59):
        js.append(dict(name='short_%d' % c, kind='step', cols=[('magic', 'any', None, 'l')], count=c))
    for n in range(0, 4):
        js.append(dict(name='iter_raw_%d' % n, kind='iter', pre=b'!<arch>\n', n=n))
    for n in range(0, 3):
        js.append(dict(name='iter_member_%d' % n, kind='iter', pre=b'!<arch>\n' + GOOD + b'2.0\n', n=n))
    js.append(dict(name='iter_nomagic', kind='iter', pre=b'', n=3))
    # .deb loading on structured corruptions of a valid package
    for n in range(0, 4 if tier == 'quick' else 5):
        js.append(dict(name='deb_binary_%d' % n, kind='deb', what='binary', n=n))
    js.append(dict(name='deb_binary_line', kind='deb', what='binary_line'))
    for which in range(3):
        js.append(dict(name='deb_name_%d' % which, kind='deb', what='name', which=which, n=2 if tier == 'quick' else 3))
    for n in range(0, 3 if tier == 'quick' else 4):
        js.append(dict(name='deb_rawctl_%d' % n, kind='deb', what='rawctl', n=n))
    # the same under every compressed member name (the decoder constructors see the arbitrary bytes), control and data
    for ext in (b'.gz', b'.xz', b'.bz2', b'.lzma', b'.zst'):
        for n in (0, 2):
            js.append(dict(name='deb_rawctl%s_%d' % (ext.decode(), n), kind='deb', what='rawctl', n=n, ext=ext))
    # a non-tarball sibling of the control / data member (control.sig ...), under every rotation of the member map
    for sib in (b'control.sig', b'data.sig', b'control.tar.sig'):
        js.append(dict(name='deb_sibling_%s' % sib.decode(), kind='deb', what='sibling', sib=sib))
    for order in range(1, 9):
        js.append(dict(name='deb_order_%d' % order, kind='deb', what='order', order=order))
    for lo in range(0, 420, 60):
        js.append(dict(name='deb_trunc_%d' % lo, kind='deb', what='trunc', lo=lo, hi=lo + 60))
    return js


def run_job(env, job):
    assume = []
    if job['kind'] == 'step':
        hdr = list(GOOD)
        for f, alph, w, align in job['cols']:
            lo, hi = FIELDS[f]
            w = w or (hi - lo)
            s = symstr(f, w)
            if alph == 'restr':
                assume += [in_set(c, RESTR + (b'/.' if f == 'name' else b'')) for c in s]
            pad = [32] * (hi - lo - w)
            hdr[lo:hi] = (list(s) + pad) if align == 'l' else (pad + list(s))
        off = z3.BitVec('off', 64)
        assume += [off >= 0, off < (1 << 62)]
        return run_harness(env, PKG, 'VerifC15Step', [Str(hdr), job['count'], off], assume, unwind=80,
                           sample='one step: columns %r (any = all 256 byte values, restr = [0-9 +-a]), %d bytes served, any offset < 2^62' % (job['cols'], job['count']))
    if job['kind'] == 'deb':
        return run_deb(env, job)
    s = symstr('x', job['n'])
    return run_harness(env, PKG, 'VerifC15Iterate', [Str(tuple(job['pre']) + tuple(s))], [], unwind=120,
                       sample='whole-archive iteration: %d known bytes followed by %d arbitrary bytes' % (len(job['pre']), job['n']))


NAMES = [b'debian-binary', b'control.tar', b'data.tar']


def run_deb(env, job):
    w = job['what']
    args = [b'2.0\n'] + NAMES + [b'', False, 0, -1]
    assume = []
    if w == 'binary':
        args[0] = symstr('b', job['n'])
        sample = 'debian-binary member holding %d arbitrary bytes (all 256 values each)' % job['n']
    elif w == 'binary_line':
        # a first line of 0-2 arbitrary bytes, a newline, then 0-2 more bytes
        rs = []
        for a in range(3):
            for c in range(3):
                args2 = list(args)
                args2[0] = Str(tuple(symstr('p', a)) + (10,) + tuple(symstr('q', c)))
                rs.append(run_harness(env, PKG, 'VerifC15Deb', args2, [], unwind=400, sample='debian-binary = %d arbitrary bytes, newline, %d arbitrary bytes' % (a, c)))
        return merge_results(rs)
    elif w == 'name':
        # the member name: arbitrary bytes in front of / behind / instead of the valid name
        rs = []
        base = NAMES[job['which']]
        for shape in ('prefix', 'suffix', 'whole'):
            x = symstr('n', job['n'])
            nm = {'prefix': tuple(x) + tuple(base[:16 - job['n']]), 'suffix': tuple(base) + tuple(x), 'whole': tuple(x)}[shape]
            if len(nm) > 16:
                continue
            args2 = list(args)
            args2[1 + job['which']] = Str(nm)
            # a blank or newline inside the name column is cut by the reader; the harness writes what it is given
            rs.append(run_harness(env, PKG, 'VerifC15Deb', args2, [], unwind=400, sample='member %d named by %d arbitrary bytes as %s of %r' % (job['which'], job['n'], shape, base.decode())))
        return merge_results(rs)
    elif w == 'rawctl':
        args[4] = symstr('c', job['n'])
        args[5] = True
        if job.get('ext'):
            args[2] = b'control.tar' + job['ext']
        sample = 'control member %s holding %d arbitrary bytes instead of a tarball' % ((b'control.tar' + job.get('ext', b'')).decode(), job['n'])
    elif w == 'sibling':
        args[6] = 9
        args[4] = job['sib']
        return run_harness(env, PKG, 'VerifC15Deb', args, assume, unwind=400, interp_kw=dict(map_orders='rot', map_order_filter='ArEntry'),
                           sample='a member %s beside the tarballs, every rotation of the member map, loaded twice' % job['sib'].decode())
    elif w == 'order':
        args[6] = job['order']
        sample = 'member order / duplication / omission variant %d' % job['order']
    elif w == 'trunc':
        rs = []
        for t in range(job['lo'], job['hi']):
            args2 = list(args)
            args2[7] = t
            rs.append(run_harness(env, PKG, 'VerifC15Deb', args2, [], unwind=400, sample='valid package cut after %d bytes' % t))
        return merge_results(rs)
    return run_harness(env, PKG, 'VerifC15Deb', args, assume, unwind=400, sample=sample)


def replay_args(c):
    a = list(c['args'])
    if c['func'] == 'VerifC15Deb' and a[6] == 9:
        a[7] = -300      # native map iteration order is random: load repeatedly
    return a


def validation_calls(env, seed):
    rnd = random.Random(seed)
    calls = [('VerifC15Step', [GOOD, 60, 8]), ('VerifC15Step', [GOOD[:58] + b'`X', 60, 8]), ('VerifC15Step', [GOOD[:58] + b'XY', 60, 8]),
             ('VerifC15Step', [GOOD[:48] + b'-60       `\n', 60, 8]), ('VerifC15Step', [GOOD, 59, 8]), ('VerifC15Step', [GOOD, 0, 8])]
    for _ in range(10):
        h = bytearray(GOOD)
        for _ in range(3):
            h[rnd.randrange(60)] = rnd.randrange(256)
        calls.append(('VerifC15Step', [bytes(h), 60, rnd.randrange(1 << 40)]))
    for b_ in (b'2.0\n', b'\n', b'2.0', b'', b'2.1\n', b'\n2.0\n'):
        calls.append(('VerifC15Deb', [b_] + NAMES + [b'', False, 0, -1]))
    for order in range(9):
        calls.append(('VerifC15Deb', [b'2.0\n'] + NAMES + [b'', False, order, -1]))
    for t in (0, 7, 8, 30, 68, 70, 72, 100, 132, 200, 300):
        calls.append(('VerifC15Deb', [b'2.0\n'] + NAMES + [b'', False, 0, t]))
    calls.append(('VerifC15Deb', [b'2.0\n'] + NAMES + [b'xx', True, 0, -1]))
    calls.append(('VerifC15Deb', [b'2.0\n', b'debian-binary', b'control.tar.gz', b'data.tar', b'xx', True, 0, -1]))
    for a in (b'', b'!<arch>\n', b'!<arch>\n\n', b'!<arch>\n' + GOOD + b'2.0\n', b'!<arch>\n' + GOOD + b'2.0\n\n', b'!<arch>\n' + GOOD):
        calls.append(('VerifC15Iterate', [a]))
    return calls


if __name__ == '__main__':
    runner.main(sys.modules[__name__])
