#!/usr/bin/env python3
# C17 - changelog parsing returns every entry faithfully, or an error.
import os, sys, random, itertools
sys.path.insert(0, os.path.dirname(os.path.abspath(__file__)))
from common import *
from symgo import models

ID = 'C17'
PKG = 'changelog'
P = MOD + '/changelog.'
ROOTS = [P + 'VerifC17Full', P + 'VerifC17Cut', P + 'VerifC17Malformed']
LOW = b'abcdefghijklmnopqrstuvwxyz'
SRC = LOW + b'0123456789+.-'
VERC = b'0123456789abcdefghijklmnopqrstuvwxyz.+~'
TXT = bytes(x for x in range(0x21, 0x7f))
DATES = [b'Sat, 29 Feb 2020 01:02:03 +0530', b'Mon, 02 Jan 2006 15:04:05 -0700', b'Tue, 10 Nov 2009 23:00:00 +0000']
LAYOUT = b'Mon, 02 Jan 2006 15:04:05 -0700'
META = dict(
    functions_encoded=['changelog.Parse', 'changelog.ParseOne', 'changelog.partition', 'changelog.trim', 'bufio.Reader (from SSA)', 'version.Parse', 'strings.Trim/SplitN/Split (models)'],
    stubs=['time.Parse: uninterpreted (TimeOK, TimeW, TimeE as functions of layout and text; the three well-formed date texts of the templates are assumed to parse)',
           '(time.Time).Equal / Zone / In / FixedZone over those abstract instants; the zone offsets of the three template dates are assumed to be what their text says', 'fmt.Errorf (opaque error)'],
    bounds={'quick': 'changelogs of 1-2 entries (1-2 distributions, 0-1 extra options, body of 1-2 lines with or without an inner blank line, 1-2 blank lines between entries, final newline or not; a change line of more than 4096 bytes; malformed entries - indented header, missing header, a date replaced by arbitrary characters or missing - in the first and in the second entry), leaves of 1-2 symbolic characters; every truncation offset of each',
            'thorough': 'up to 3 entries, leaves up to 3 characters'},
    outside_claim=['that time.Parse reads RFC 1123 dates correctly (stdlib)', 'larger changelogs'],
    assumptions=['for a cut inside a date, the shortened date text may or may not parse (uninterpreted), both are explored'])


class Sym:
    def __init__(self):
        self.n = 0
        self.assume = []

    def leaf(self, n, first, rest):
        self.n += 1
        s = symstr('l%d' % self.n, n)
        for i, c in enumerate(s):
            self.assume.append(in_set(c, first if i == 0 else rest))
        return tuple(s)


def B(x):
    return tuple(x)


def mk_entry(sym, spec, L, idx):
    src = sym.leaf(L, LOW, SRC)
    ver = sym.leaf(L, DIGITS, VERC)
    dists = [sym.leaf(L, LOW, LOW) for _ in range(spec['dists'])]
    urg = sym.leaf(L, LOW, LOW)
    opts = [(B(b'urgency'), urg)]
    if spec['opt']:
        opts.append((B(b'binary-only'), sym.leaf(L, LOW, LOW)))
    body = []
    for i in range(spec['lines']):
        if i and spec['blank']:
            body.append(())
        body.append(B(b'  * ') + (B(b'x' * spec['long']) if spec.get('long') and i == 0 else ()) + sym.leaf(L, TXT, TXT))
    name = sym.leaf(L, TXT, TXT) + B(b' <') + sym.leaf(L, LOW, LOW) + B(b'@x>')
    return dict(src=src, ver=ver, dists=dists, opts=opts, body=body, name=name, date=DATES[idx % len(DATES)])


def render(entries, opt):
    """returns (doc, [per-entry dict(dump, end, date_start, date_end)])"""
    doc = ()
    info = []
    for i, e in enumerate(entries):
        if i:
            doc += (10,) * opt['sep']
        start = len(doc)
        target = ()
        for k, d in enumerate(e['dists']):
            target += ((32,) if k else ()) + d
        hdr = e['src'] + B(b' (') + e['ver'] + B(b') ') + target + B(b'; ')
        for k, (ok, ov) in enumerate(e['opts']):
            hdr += (B(b', ') if k else ()) + ok + B(b'=') + ov
        doc += hdr + (10,)
        body = (10,)
        for l in e['body']:
            body += l + (10,)
        body += (10,)
        doc += body
        trailer_pre = B(b' -- ') + e['name'] + B(b'  ')
        doc += trailer_pre
        ds = len(doc)
        doc += B(e['date'])
        de = len(doc)
        last = (i == len(entries) - 1)
        if not last or opt['final']:
            doc += (10,)
        args = sorted(e['opts'], key=lambda kv: bytes(kv[0]))
        dump = B(b'E') + e['src'] + (0,) + e['ver'] + (0,) + target + (0,)
        for ok, ov in args:
            dump += ok + B(b'=') + ov + (1,)
        dump += (0,) + body + (0,) + e['name'] + (0,)
        info.append(dict(dump=dump, start=start, end=de, date_start=ds, date_end=de))
    return doc, info


def shapes(tier):
    base = [dict(dists=1, opt=False, lines=1, blank=False), dict(dists=2, opt=True, lines=2, blank=True), dict(dists=1, opt=True, lines=2, blank=False)]
    out = []
    for s in base:
        for final in (True, False):
            out.append(dict(entries=[s], sep=1, final=final))
    for a, b in itertools.product(base[:2], repeat=2):
        for sep, final in ((1, True), (2, False)):
            out.append(dict(entries=[a, b], sep=sep, final=final))
    if tier == 'thorough':
        out.append(dict(entries=base, sep=1, final=True))
        out.append(dict(entries=[base[1], base[0], base[2]], sep=2, final=False))
    return out


def jobs(tier):
    js = []
    for si, sh in enumerate(shapes(tier)):
        for L in ((1, 2) if tier == 'quick' else (1, 2, 3)):
            js.append(dict(name='full_%d_L%d' % (si, L), kind='full', shape=si, L=L))
        js.append(dict(name='cut_%d' % si, kind='cut', shape=si, L=1))
    # a change line longer than the 4096-byte buffer of the reader
    js.append(dict(name='full_long', kind='full', shape=0, L=1, long=4200))
    js.append(dict(name='full_long2', kind='full', shape=6, L=1, long=4096))
    # malformed entries: header indented / missing / a date that is no date, in the first or the second entry
    for what in ('indent', 'nohdr', 'baddate', 'nodate'):
        for where in (0, 1):
            for si in ((0, 2) if where == 0 else (6, 8)):
                js.append(dict(name='bad_%s_%d_%d' % (what, where, si), kind='bad', what=what, where=where, shape=si, L=1))
    return js


def build(env, job):
    sh = shapes(env.tier)[job['shape']]
    if job.get('long'):
        sh = dict(sh, entries=[dict(e, long=job['long']) for e in sh['entries']])
    sym = Sym()
    entries = [mk_entry(sym, s, job['L'], i) for i, s in enumerate(sh['entries'])]
    doc, info = render(entries, sh)
    for d in DATES:
        sym.assume.append(models.time_ok_term(LAYOUT, d))
        sym.assume.append(models.time_zone_term(LAYOUT, d) == zone_of(d))
    return sh, sym, entries, doc, info


def run_job(env, job):
    sh, sym, entries, doc, info = build(env, job)
    if job['kind'] == 'bad':
        k = job['where']
        e = entries[k]
        if job['what'] == 'indent':
            doc = doc[:info[k]['start']] + (32,) + doc[info[k]['start']:]
        elif job['what'] == 'nohdr':
            nl = doc.index(10, info[k]['start'])
            doc = doc[:info[k]['start']] + doc[nl + 1:]
        elif job['what'] == 'baddate':
            # the date replaced by 1-3 arbitrary printable characters
            doc = doc[:info[k]['date_start']] + sym.leaf(3, TXT, TXT) + doc[info[k]['date_end']:]
        else:
            doc = doc[:info[k]['date_start']] + doc[info[k]['date_end']:]
        return run_harness(env, PKG, 'VerifC17Malformed', [Str(doc), len(entries) if job['what'] == 'indent' else 0], sym.assume, unwind=len(doc) + 60,
                           sample=dict(malformed=job['what'], entry=k, entries=sh['entries']))
    if job['kind'] == 'full':
        expect = sum((i['dump'] for i in info), ())
        dates = ()
        for k, e in enumerate(entries):
            dates += ((0,) if k else ()) + B(e['date'])
        return run_harness(env, PKG, 'VerifC17Full', [Str(doc), len(entries), Str(expect), Str(dates)], sym.assume, unwind=len(doc) + 60,
                           sample=dict(entries=sh['entries'], sep=sh['sep'], final_newline=sh['final'], leaf_len=job['L']))
    rs = []
    for cut in range(0, len(doc)):
        prefix = doc[:cut]
        complete = sum(1 for i in info if i['end'] <= cut)
        # text after the last complete entry
        after = info[complete - 1]['end'] if complete else 0
        rest = prefix[after:]
        partial = any((not isinstance(b, int)) or b not in (10,) for b in rest)
        nxt = info[complete] if complete < len(info) else None
        in_date = nxt is not None and nxt['date_start'] <= cut < nxt['date_end']
        expect = sum((i['dump'] for i in info[:complete]), ())
        rs.append(run_harness(env, PKG, 'VerifC17Cut', [Str(prefix), complete, partial, in_date, Str(expect)], sym.assume, unwind=len(doc) + 60,
                              sample=dict(cut_at=cut, of=len(doc), complete_entries=complete, partial_text_follows=partial, inside_date=in_date)))
    return merge_results(rs)


def zone_of(d):
    z = d[-5:].decode()
    return (1 if z[0] == '+' else -1) * (int(z[1:3]) * 3600 + int(z[3:5]) * 60)


def validation_setup(I, ctx):
    for d in DATES:
        ctx.assume(models.time_ok_term(LAYOUT, d))
        ctx.assume(models.time_zone_term(LAYOUT, d) == zone_of(d))


def validation_calls(env, seed):
    e1 = b'hello (2.10-1) unstable; urgency=low\n\n  * Initial release.\n\n -- A B <a@b>  Mon, 02 Jan 2006 15:04:05 -0700\n'
    d1 = b'Ehello\x002.10-1\x00unstable\x00urgency=low\x01\x00\n  * Initial release.\n\n\x00A B <a@b>\x00'
    calls = [('VerifC17Full', [e1, 1, d1, DATES[0]]), ('VerifC17Full', [e1 + b'\n' + e1, 2, d1 + d1, DATES[0] + b'\x00' + DATES[0]]),
             ('VerifC17Cut', [e1[:-1], 0, True, False, b'']), ('VerifC17Cut', [e1[:30], 0, True, False, b'']), ('VerifC17Cut', [e1 + b'\n', 1, False, False, d1]),
             ('VerifC17Cut', [e1 + b'\nhel', 1, True, False, d1]),
             ('VerifC17Malformed', [b' ' + e1, 1]), ('VerifC17Malformed', [e1 + b'\n ' + e1, 2]), ('VerifC17Malformed', [e1[e1.index(b'\n') + 1:], 0]),
             ('VerifC17Malformed', [e1.replace(b'Mon, 02 Jan 2006 15:04:05 -0700', b'yesterday'), 0]), ('VerifC17Malformed', [e1.replace(b'Mon, 02 Jan 2006 15:04:05 -0700', b''), 0])]
    return calls


if __name__ == '__main__':
    runner.main(sys.modules[__name__])
