#!/usr/bin/env python3
# C05 - rendering a parsed dependency and re-parsing it loses nothing.
import os, sys, random, itertools
sys.path.insert(0, os.path.dirname(os.path.abspath(__file__)))
from common import *

ID = 'C05'
PKG = 'dependency'
D = MOD + '/dependency.'
ROOTS = [D + 'VerifC05Dep', D + 'VerifC05Arch']
BOUNDS = {'quick': dict(N=4, A=6), 'thorough': dict(N=6, A=9)}
# byte classes that the dependency grammar distinguishes (used to split jobs; every byte value is in one class)
STRUCT = [b' \t\r\n', b',', b'|', b':', b'(', b')', b'[', b']', b'<', b'>', b'!', b'$', b'{', b'}', b'=', b'-']
META = dict(
    functions_encoded=['dependency.Parse', 'dependency.parseDependency', 'parseRelation', 'parsePossibility', 'parseSubstvar', 'parseMultiarch',
                       'parsePossibilityControllers', 'parsePossibilityVersion', 'parsePossibilityOperator', 'parsePossibilityNumber',
                       'parsePossibilityArchs', 'parsePossibilityArch', 'parsePossibilityStageSet', 'parsePossibilityStage', 'input.Peek/Next',
                       'eatWhitespace', 'ParseArch', 'parseArchInto', '(*Arch).UnmarshalControl', '(*Dependency).UnmarshalControl',
                       'all String()/MarshalControl methods in dependency/string.go'],
    stubs=['strings.SplitN / strings.Join (position case split)', 'fmt.Errorf / errors.New (opaque non-nil error)', 'string(byte) via UTF-8 encoding case split'],
    bounds={'quick': 'dependency strings: every byte string (all 256 values) of length <= 4; architecture names: every ASCII string of length <= 6',
            'thorough': 'dependency strings: length <= 6; architecture names: length <= 9'},
    outside_claim=['longer inputs'],
    assumptions=['structural equality as in harness eqDependency: names, arch qualifier, version relation, architecture set with negation flag, stage sets, substvar flag'])


def other_class():
    used = b''.join(STRUCT)
    return bytes(x for x in range(256) if x not in used)


def jobs(tier):
    b = BOUNDS[tier]
    cls = STRUCT + [other_class()]
    js = []
    for n in range(b['N'] + 1):
        depth = 0 if n <= 2 else (1 if n <= 3 else 2 if n <= 5 else 3)
        for part in itertools.product(range(len(cls)), repeat=depth):
            js.append(dict(name='dep_%d_%s' % (n, '_'.join(map(str, part))), kind='dep', n=n, part=list(part)))
    for n in range(b['A'] + 1):
        js.append(dict(name='arch_%d' % n, kind='arch', n=n))
    js.sort(key=lambda j: -j['n'])
    return js


def run_job(env, job):
    n = job['n']
    s = symstr('s', n)
    if job['kind'] == 'dep':
        cls = STRUCT + [other_class()]
        assume = [in_set(s[pos], cls[ci]) for pos, ci in enumerate(job['part'])]
        return run_harness(env, PKG, 'VerifC05Dep', [s], assume, unwind=4 * n + 24, sample='all byte strings of length %d with leading byte classes %r' % (n, job['part']))
    assume = [z3.ULT(c, 128) for c in s]
    return run_harness(env, PKG, 'VerifC05Arch', [s], assume, unwind=4 * n + 24, sample='all ASCII architecture names of length %d' % n)


def validation_calls(env, seed):
    rnd = random.Random(seed)
    lits = [b'foo', b'foo, bar | baz', b'foo (>= 1.0) [amd64 i386] <!stage1>', b'foo:any', b'${misc:Depends}', b'a [!x !y]', b'a (<< 1) <a b> <c>',
            b'|', b',', b'foo\t(= 1)', b'\xc3\xa9', b'a [ ]', b'a(=1)', b'a (==1)', b'foo [linux-any]', b'foo:linux-any (>> 2~)', b'a,,b', b'a | | b']
    for _ in range(40):
        n = rnd.randint(0, 8)
        lits.append(bytes(rnd.choice(b'ab ,|:()[]<>!${}=-1.') for _ in range(n)))
    calls = [('VerifC05Dep', [s]) for s in lits]
    for x in [b'any', b'all', b'amd64', b'linux-any', b'any-amd64', b'kfreebsd-amd64', b'musl-linux-amd64', b'gnu-linux-any', b'', b'-', b'a-b-c-d', b'any-any-any']:
        calls.append(('VerifC05Arch', [x]))
    return calls


if __name__ == '__main__':
    runner.main(sys.modules[__name__])
