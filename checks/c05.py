#!/usr/bin/env python3
# C05 - rendering a parsed dependency and re-parsing it loses nothing.
import os, sys, random, itertools
sys.path.insert(0, os.path.dirname(os.path.abspath(__file__)))
from common import *
import c04

ID = 'C05'
PKG = 'dependency'
D = MOD + '/dependency.'
ROOTS = [D + 'VerifC05Dep', D + 'VerifC05Arch']
BOUNDS = {'quick': dict(N=4, A=6), 'thorough': dict(N=5, A=8)}
# byte classes that the dependency grammar distinguishes (used to split jobs; every byte value is in one class)
STRUCT = [b' \t\r\n', b',', b'|', b':', b'(', b')', b'[', b']', b'<', b'>', b'!', b'$', b'{', b'}', b'=', b'-']
META = dict(
    functions_encoded=['dependency.Parse', 'dependency.parseDependency', 'parseRelation', 'parsePossibility', 'parseSubstvar', 'parseMultiarch',
                       'parsePossibilityControllers', 'parsePossibilityVersion', 'parsePossibilityOperator', 'parsePossibilityNumber',
                       'parsePossibilityArchs', 'parsePossibilityArch', 'parsePossibilityStageSet', 'parsePossibilityStage', 'input.Peek/Next',
                       'eatWhitespace', 'ParseArch', 'parseArchInto', '(*Arch).UnmarshalControl', '(*Dependency).UnmarshalControl',
                       'all String()/MarshalControl methods in dependency/string.go'],
    stubs=['strings.SplitN / strings.Join (position case split)', 'fmt.Errorf / errors.New (opaque non-nil error)', 'string(byte) via UTF-8 encoding case split'],
    bounds={'quick': 'dependency strings: every byte string (all 256 values) of length <= 4, plus every single-alternative C04 shape in the conventional layout with symbolic leaves, with each leaf kind in turn drawn from bytes >= 0x80, and with each special architecture name (any, all, linux-any, any-amd64, gnu-linux-any, ...) as qualifier and list entry; architecture names: every ASCII string of length <= 6 and every 1-3 part name over {any, all, gnu, linux, <symbolic>}',
            'thorough': 'dependency strings: length <= 6; architecture names: length <= 9'},
    outside_claim=['longer inputs'],
    assumptions=['structural equality as in harness eqDependency: names, arch qualifier, version relation, architecture set with negation flag, stage sets, substvar flag'])


def other_class():
    used = b''.join(STRUCT)
    return bytes(x for x in range(256) if x not in used)


def jobs(tier):
    b = BOUNDS[tier]
    cls = STRUCT + [other_class()]
    js = []
    for n in range(b['N'] + 1):
        depth = 0 if n <= 2 else (1 if n <= 3 else 2 if n <= 5 else 3)
        for part in itertools.product(range(len(cls)), repeat=depth):
            js.append(dict(name='dep_%d_%s' % (n, '_'.join(map(str, part))), kind='dep', n=n, part=list(part)))
    for n in range(b['A'] + 1):
        js.append(dict(name='arch_%d' % n, kind='arch', n=n))
    js.sort(key=lambda j: -j['n'])
    nt = len(tmpl_cases(tier))
    js += [dict(name='tmpl_%d' % i, kind='tmpl', lo=i, hi=min(i + 60, nt), n=0) for i in range(0, nt, 60)]
    js.append(dict(name='archnames', kind='archnames', n=0))
    return js


SPECIAL_ARCHS = [b'any', b'all', b'linux-any', b'any-amd64', b'gnu-linux-any', b'gnu-any-any', b'musl-linux-amd64', b'kfreebsd-amd64', b'gnu-linux-all', b'any-any-any', b'amd64']


def tmpl_cases(tier):
    """grammar-derived inputs: the C04 single-alternative shapes in the conventional layout with (i) ordinary leaves,
    (ii) each leaf kind in turn drawn from bytes >= 0x80, (iii) every special architecture name as qualifier and list entry"""
    cases = []
    specs = c04.single_specs()
    for spec in specs:
        cases.append(dict(spec=spec, hi=None, L=1))
        kinds = []
        if spec['kind'] == 'subst':
            kinds = ['subst']
        else:
            kinds = ['name'] + (['qual'] if spec.get('qual') == 'sym' else []) + (['ver'] if 'ver' in spec['order'] else []) + \
                    (['arch'] if 'arch' in spec['order'] and 'sym' in spec.get('archs', ()) else []) + (['prof'] if any(o[0] == 'p' for o in spec['order']) else [])
        for k in kinds:
            cases.append(dict(spec=spec, hi=k, L=2 if tier == 'thorough' else 1))
    base = dict(kind='pkg', qual='sym', order=['arch'], op='e', profs=[], archs=['sym'], neg=False)
    for a in SPECIAL_ARCHS:
        for neg in (False, True):
            cases.append(dict(spec=dict(base, qual=a, archs=[a, 'sym'], neg=neg), hi=None, L=1))
    # version numbers that are legal but not in canonical form must come back verbatim
    for vt in (b'0:1.0-1', b'01:3.1', b'1.0-', b'0:1:2-', b'1-2-', b'00', b'1.0~', b'0:0'):
        for op in ('e', '='):
            cases.append(dict(spec=dict(kind='pkg', qual=None, order=['ver'], op=op, profs=[], ver_text=vt), hi=None, L=1))
    return cases


def run_job(env, job):
    if job['kind'] == 'tmpl':
        rs = []
        for case in tmpl_cases(env.tier)[job['lo']:job['hi']]:
            sym = c04.Sym()
            alt = c04.mk_alt(sym, case['spec'], case['L'], hi=case['hi'])
            text, dump, _ = c04.render_dep([[alt]], sym, 'conv')
            rs.append(run_harness(env, PKG, 'VerifC05Dep', [Str(text)], sym.assume, unwind=len(text) + 24,
                                  sample=dict(template=str({k: v for k, v in case['spec'].items() if k in ('kind', 'qual', 'order', 'archs', 'neg')}), high_bytes_in=case['hi'])))
        return merge_results(rs)
    if job['kind'] == 'archnames':
        rs = []
        comps = [b'any', b'all', b'gnu', b'linux', None]
        for k in (1, 2, 3):
            for combo in itertools.product(comps, repeat=k):
                sym = c04.Sym()
                parts = []
                for i, c in enumerate(combo):
                    if i:
                        parts.append((45,))
                    parts.append(tuple(c) if c is not None else sym.leaf(1, c04.LOW, c04.LOW))
                name = Str(sum(parts, ()))
                rs.append(run_harness(env, PKG, 'VerifC05Arch', [name], sym.assume, unwind=64, sample='architecture name ' + '-'.join(c.decode() if c else '<x>' for c in combo)))
        return merge_results(rs)
    n = job['n']
    s = symstr('s', n)
    if job['kind'] == 'dep':
        cls = STRUCT + [other_class()]
        assume = [in_set(s[pos], cls[ci]) for pos, ci in enumerate(job['part'])]
        return run_harness(env, PKG, 'VerifC05Dep', [s], assume, unwind=4 * n + 24, sample='all byte strings of length %d with leading byte classes %r' % (n, job['part']))
    assume = [z3.ULT(c, 128) for c in s]
    return run_harness(env, PKG, 'VerifC05Arch', [s], assume, unwind=4 * n + 24, sample='all ASCII architecture names of length %d' % n)


def validation_calls(env, seed):
    rnd = random.Random(seed)
    lits = [b'foo', b'foo, bar | baz', b'foo (>= 1.0) [amd64 i386] <!stage1>', b'foo:any', b'${misc:Depends}', b'a [!x !y]', b'a (<< 1) <a b> <c>',
            b'|', b',', b'foo\t(= 1)', b'\xc3\xa9', b'a [ ]', b'a(=1)', b'a (==1)', b'foo [linux-any]', b'foo:linux-any (>> 2~)', b'a,,b', b'a | | b']
    for _ in range(40):
        n = rnd.randint(0, 8)
        lits.append(bytes(rnd.choice(b'ab ,|:()[]<>!${}=-1.') for _ in range(n)))
    calls = [('VerifC05Dep', [s]) for s in lits]
    for x in [b'any', b'all', b'amd64', b'linux-any', b'any-amd64', b'kfreebsd-amd64', b'musl-linux-amd64', b'gnu-linux-any', b'', b'-', b'a-b-c-d', b'any-any-any']:
        calls.append(('VerifC05Arch', [x]))
    return calls


if __name__ == '__main__':
    runner.main(sys.modules[__name__])
