#!/usr/bin/env python3
# C08 - writing paragraphs and reading them back preserves their content.
import os, sys, random, itertools
sys.path.insert(0, os.path.dirname(os.path.abspath(__file__)))
from common import *
import c07

ID = 'C08'
PKG = 'control'
C = MOD + '/control.'
ROOTS = [C + 'VerifC08Value', C + 'VerifC08Doc', C + 'VerifC08Encoder']
BOUNDS = {'quick': dict(N=4), 'thorough': dict(N=6)}
VCH = b'\n \t.a#'
META = dict(
    functions_encoded=['(*Paragraph).WriteTo', '(*Paragraph).Set', 'control.NewEncoder', '(*Encoder).Encode/encode/encodeSlice/encodeStruct', 'control.convertToParagraph',
                       '(*Paragraph).Update', 'control.Marshal', 'the reader of C07', 'bytes.Buffer (from its SSA)'],
    stubs=['strings.Replace / Split / Join (position case split)', 'fmt.Sprintf("%s: %s\\n")', 'reflect model'],
    bounds={'quick': 'values: every string of length <= 4 over {newline, space, tab, ".", "a", "#"} that is a sequence of text lines a field can hold; documents: the C07 templates (read, write, read); encoder: 1-3 structs of 1-2 single-line fields in four call groupings (one Encode per struct, struct then slice, one slice, slice then struct), also with one struct that has nothing to write at each position',
            'thorough': 'values of length <= 6'},
    outside_claim=['longer values', 'values with a line that is exactly "." or that carry trailing blanks (deb822 cannot represent them)'],
    assumptions=['values are compared up to one trailing newline on the first cycle and exactly on the second'])


def jobs(tier):
    b = BOUNDS[tier]
    js = []
    for n in range(b['N'] + 1):
        if n <= 3:
            js.append(dict(name='value_%d' % n, kind='value', n=n, part=[]))
        else:
            for part in itertools.product(range(len(VCH)), repeat=1 if n <= 5 else 2):
                js.append(dict(name='value_%d_%s' % (n, '_'.join(map(str, part))), kind='value', n=n, part=list(part)))
    nt = len(c07.templates(tier))
    js += [dict(name='doc_%d' % i, kind='doc', lo=i, hi=min(i + 30, nt), n=0) for i in range(0, nt, 30)]
    for k in (1, 2, 3):
        for f in (1, 2):
            js.append(dict(name='enc_%d_%d' % (k, f), kind='enc', k=k, f=f, n=0))
    for empty in (0, 1, 2):
        js.append(dict(name='enc_empty_%d' % empty, kind='enc', k=3, f=2, n=0, empty=empty))
    js.sort(key=lambda j: -j['n'])
    return js


def run_job(env, job):
    if job['kind'] == 'value':
        n = job['n']
        v = symstr('v', n)
        assume = [in_set(c, VCH) for c in v] + [v[pos] == VCH[ci] for pos, ci in enumerate(job['part'])]
        return run_harness(env, PKG, 'VerifC08Value', [v], assume, unwind=4 * n + 60, sample='every value of length %d over {\\n, space, tab, ., a, #}' % n)
    if job['kind'] == 'doc':
        rs = []
        for t in c07.templates(env.tier)[job['lo']:job['hi']]:
            sym = c07.Sym()
            paras = [[c07.mk_field(sym, i, sh, t['L']) for i, sh in enumerate(fields)] for fields in t['paras']]
            doc, dump = c07.render(paras, t['opt'], sym)
            rs.append(run_harness(env, PKG, 'VerifC08Doc', [Str(doc)], sym.assume, unwind=len(doc) + 60, sample=dict(read_write_read=t['paras'], options={k: v for k, v in t['opt'].items() if v})))
        return merge_results(rs)
    k, f = job['k'], job['f']
    sym = c07.Sym()
    args = []
    for i in range(3):
        for j in range(2):
            args.append(Str(sym.leaf(1 if (i < k and j < f and i != job.get('empty')) else 0, c07.VIS, c07.PRN, last=c07.VIS)))
    return merge_results([run_harness(env, PKG, 'VerifC08Encoder', [k, f] + args + [g], sym.assume, unwind=80,
                                      sample='%d paragraphs of %d fields through one Encoder, grouping %d (0 one call each, 1 struct then slice, 2 one slice, 3 slice then struct / one-element slices)' % (k, f, g)) for g in (0, 1, 2, 3)])


def validation_calls(env, seed):
    rnd = random.Random(seed)
    calls = []
    for v in [b'', b'a', b'a\nb', b'a\n', b'a\n\nb\n', b'\na', b'\n\na\n', b'a\n b', b'a\n\n', b'.', b'a\n.', b'\n']:
        calls.append(('VerifC08Value', [v]))
    for _ in range(25):
        calls.append(('VerifC08Value', [bytes(rnd.choice(VCH) for _ in range(rnd.randint(0, 6)))]))
    calls.append(('VerifC08Doc', [b'A: b\n c\n\nD: e']))
    calls.append(('VerifC08Doc', [b'F:\n x\n .\n y\n']))
    calls.append(('VerifC08Encoder', [2, 2, b'a', b'b', b'c', b'd', b'', b'', 0]))
    calls.append(('VerifC08Encoder', [3, 2, b'a', b'b', b'c', b'd', b'e', b'f', 1]))
    calls.append(('VerifC08Encoder', [3, 2, b'a', b'b', b'c', b'd', b'e', b'f', 3]))
    calls.append(('VerifC08Encoder', [2, 1, b'a', b'', b'c', b'', b'', b'', 2]))
    return calls


if __name__ == '__main__':
    runner.main(sys.modules[__name__])
