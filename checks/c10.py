#!/usr/bin/env python3
# C10 - typed Debian documents decode to exactly the fields written in them.
import os, sys, random, itertools
sys.path.insert(0, os.path.dirname(os.path.abspath(__file__)))
from common import *
import c04

ID = 'C10'
PKG = 'control'
C = MOD + '/control.'
ROOTS = [C + n for n in ('VerifC10Dsc', 'VerifC10Changes', 'VerifC10Control', 'VerifC10Packages', 'VerifC10Sources', 'VerifC10Best')]
LOW = b'abcdefghijklmnopqrstuvwxyz'
LOWD = LOW + b'0123456789'
HEX = b'0123456789abcdef'
TXT = bytes(x for x in range(0x21, 0x7f) if x not in b'|,')
META = dict(
    functions_encoded=['control.ParseDsc', 'ParseChanges', 'ParseControl', 'ParseBinaryIndex', 'ParseSourceIndex', 'control.Unmarshal/decode/decodeStruct/decodeStructValue*',
                       '(*FileHash).unmarshalControl', '(*FileListChangesFileHash).UnmarshalControl', 'MD5/SHA1/SHA256/SHA512FileHash.UnmarshalControl',
                       '(*DSC).Maintainers/HasArchAll/AbsFiles/DebianSource', '(*Changes).AbsFiles', '(*SourceParagraph).Maintainers', '(*BinaryIndex).SourcePackage/Get*',
                       '(*SourceIndex).Get*', '(*BestChecksums).Checksums', 'getOptionalDependencyField', 'dependency.Parse', 'version.Parse', 'ParseArch', 'path.Join', 'filepath.Dir'],
    stubs=['reflect (model; struct tags come from go/types, so a changed or missing tag changes the encoding)', 'strings.Fields/Split/Trim/Contains (models)', 'fmt.Sprintf/Errorf'],
    bounds={'quick': 'one document per kind and layout variant (.dsc single-line and folded lists with 1-3 binaries, 0-2 uploaders with blanks inside the names, 1-2 file entries; .changes; debian/control with 1-2 binary paragraphs; Packages; Sources; best-checksum selector with sha256 only / sha512 only / both), every struct field present at least once, leaves of 1-2 symbolic characters; Size / Installed-Size as small literals, as 2^31, 2^32 and 2^63-1, and as symbolic digits; a file size of 2^32',
            'thorough': 'leaves of up to 3 symbolic characters'},
    outside_claim=['field combinations not in the template set', 'long values', 'documents holding fields named like the fields of nested types (Epoch, Revision, Relations, ...)'],
    assumptions=['architecture names denote the triples ParseArch documents; dependency fields denote the structure checked in C04'])


def B(x):
    return tuple(x)


def J(parts, sep):
    out = ()
    for i, p in enumerate(parts):
        if i:
            out += B(sep)
        out += tuple(p)
    return out


def dstrs(l):
    return B(b'[') + J(l, b'|') + B(b']')


def darch(name):
    t = c04.arch_triple(name)
    return t[0] + B(b'/') + t[1] + B(b'/') + t[2]


def dver(up, rev):
    return B(b'0:') + tuple(up) + B(b'-') + tuple(rev)


def dhash(algo, h, size, fn, byhash=b''):
    return B(algo) + B(b':') + tuple(h) + B(b':') + B(size) + B(b':') + tuple(fn) + B(b':') + B(byhash)


class Doc:
    def __init__(self, L):
        self.sym = c04.Sym()
        self.L = L
        self.lines = []
        self.order = []

    def leaf(self, first=LOW, rest=LOWD, n=None):
        return self.sym.leaf(n or self.L, first, rest)

    def field(self, key, first, conts=()):
        self.order.append(B(key))
        self.lines.append(B(key) + B(b':') + ((B(b' ') + tuple(first)) if first else ()))
        for c in conts:
            self.lines.append(B(b' ') + tuple(c))

    def blank(self):
        self.lines.append(())

    def text(self):
        out = ()
        for l in self.lines:
            out += l + (10,)
        return out

    def dep(self, spec_rels, mode='conv'):
        rels = [[c04.mk_alt(self.sym, spec, 1) for spec in rel] for rel in spec_rels]
        text, dump, _ = c04.render_dep(rels, self.sym, mode)
        return text, dump


SIMPLE = dict(kind='pkg', order=[])
VERS = dict(kind='pkg', order=['ver'], op='e')
SUBST = dict(kind='subst', n=1)
ARCHD = dict(kind='pkg', order=['arch'], archs=['sym'], neg=False)


def add(exp, k, v):
    exp.append(B(k) + B(b'=') + tuple(v) + (0,))


def dsc(variant, L):
    d = Doc(L)
    exp = []
    path = b'/srv/x.dsc'
    fmt = B(b'3.0 (quilt)')
    src = d.leaf()
    nb = {'single': 2, 'folded': 3, 'one': 1}[variant]
    bins = [d.leaf() for _ in range(nb)]
    archs = [b'any', b'all'] if variant != 'one' else [b'amd64']
    up, rev = d.leaf(DIGITS, LOWD + b'.'), d.leaf(LOWD, LOWD)
    maint = d.leaf(TXT, TXT) + B(b' <m@x>')
    ups = {'single': [d.leaf(TXT, TXT) + B(b' ') + d.leaf(TXT, TXT) + B(b' <a@x>'), d.leaf(TXT, TXT) + B(b' <b@x>')], 'folded': [d.leaf(TXT, TXT) + B(b' B <c@x>')], 'one': []}[variant]
    home, stdv, origin = d.leaf(TXT, TXT), B(b'4.') + d.leaf(DIGITS, DIGITS, n=1), d.leaf()
    bd_t, bd_d = d.dep([[VERS], [SIMPLE, SUBST]])
    bd1_t, bd1_d = d.dep([[VERS]])
    bd2_t, bd2_d = d.dep([[SIMPLE, SUBST]])
    bda_t, bda_d = d.dep([[ARCHD]])
    bdi_t, bdi_d = d.dep([[SIMPLE]])
    files = [(d.leaf(HEX, HEX, n=2), b'123', d.leaf() + B(b'.orig.tar.gz')), (d.leaf(HEX, HEX, n=2), b'45', d.leaf() + B(b'.debian.tar.xz'))]
    if variant == 'one':
        files = files[1:]
    d.field(b'Format', fmt)
    d.field(b'Source', src)
    if variant == 'folded':
        d.field(b'Binary', bins[0] + B(b','), [b_ + (B(b',') if i < nb - 2 else ()) for i, b_ in enumerate(bins[1:])])
    else:
        d.field(b'Binary', J(bins, b', '))
    d.field(b'Architecture', J([B(a) for a in archs], b' '))
    d.field(b'Version', up + B(b'-') + rev)
    d.field(b'Origin', origin)
    d.field(b'Maintainer', maint)
    if ups:
        if variant == 'folded' or len(ups) == 1:
            d.field(b'Uploaders', ups[0])
        else:
            d.field(b'Uploaders', ups[0] + B(b','), [ups[1]])
    d.field(b'Homepage', home)
    d.field(b'Standards-Version', stdv)
    if variant == 'folded':
        d.field(b'Build-Depends', bd1_t + B(b','), [bd2_t])
        bd_d = bd1_d + bd2_d
    else:
        d.field(b'Build-Depends', bd_t)
    d.field(b'Build-Depends-Arch', bda_t)
    d.field(b'Build-Depends-Indep', bdi_t)
    d.field(b'Package-List', (), [B(b'x deb misc optional arch=any')])
    d.field(b'Checksums-Sha1', (), [h + B(b' ') + B(s) + B(b' ') + f for h, s, f in files])
    d.field(b'Checksums-Sha256', (), [h + B(b' ') + B(s) + B(b' ') + f for h, s, f in files])
    d.field(b'Files', (), [h + B(b' ') + B(s) + B(b' ') + f for h, s, f in files])
    add(exp, b'Filename', path)
    add(exp, b'Format', fmt)
    add(exp, b'Source', src)
    add(exp, b'Binaries', dstrs(bins))
    add(exp, b'Architectures', dstrs([darch(a) for a in archs]))
    add(exp, b'Version', dver(up, rev))
    add(exp, b'Origin', origin)
    add(exp, b'Maintainer', maint)
    add(exp, b'Uploaders', dstrs(ups))
    add(exp, b'Homepage', home)
    add(exp, b'StandardsVersion', stdv)
    add(exp, b'BuildDepends', bd_d)
    add(exp, b'BuildDependsArch', bda_d)
    add(exp, b'BuildDependsIndep', bdi_d)
    add(exp, b'ChecksumsSha1', dstrs([dhash(b'sha1', h, s, f) for h, s, f in files]))
    add(exp, b'ChecksumsSha256', dstrs([dhash(b'sha256', h, s, f, b'SHA256') for h, s, f in files]))
    add(exp, b'Files', dstrs([dhash(b'md5', h, s, f) for h, s, f in files]))
    add(exp, b'Maintainers()', dstrs([maint] + ups))
    add(exp, b'HasArchAll()', b'yes' if b'all' in archs else b'no')
    add(exp, b'AbsFiles()', dstrs([B(b'/srv/') + f for h, s, f in files]))
    add(exp, b'DebianSource()', files[-1][2])
    add(exp, b'Raw', dstrs(d.order))
    return 'VerifC10Dsc', [Str(d.text()), mkstr(path), Str(sum(exp, ()))], d.sym.assume


def changes(variant, L):
    d = Doc(L)
    exp = []
    path = b'/in/y.changes'
    src = d.leaf()
    bins = [d.leaf() for _ in range(3 if variant == 'a' else 1)]
    archs = [b'source', b'amd64'] if variant == 'a' else [b'all']
    up, rev = d.leaf(DIGITS, LOWD + b'.'), d.leaf(LOWD, LOWD)
    dist, urg = d.leaf(), d.leaf()
    maint, chby = d.leaf(TXT, TXT) + B(b' <m@x>'), d.leaf(TXT, TXT) + B(b' X <c@x>')
    closes = [d.leaf(DIGITS, DIGITS), d.leaf(DIGITS, DIGITS)] if variant == 'a' else []
    chl = [d.leaf() + B(b' (') + up + B(b') ') + dist + B(b'; urgency=') + urg, B(b'  * ') + d.leaf(TXT, TXT)]
    files = [(d.leaf(HEX, HEX, n=2), b'77', d.leaf(), d.leaf(), d.leaf() + B(b'.dsc'))]
    if variant == 'a':
        files.append((d.leaf(HEX, HEX, n=2), b'1234', d.leaf(), d.leaf(), d.leaf() + B(b'.deb')))
    d.field(b'Format', b'1.8')
    d.field(b'Date', b'Mon, 02 Jan 2006 15:04:05 -0700')
    d.field(b'Source', src)
    d.field(b'Binary', J(bins, b' '))
    d.field(b'Architecture', J([B(a) for a in archs], b' '))
    d.field(b'Version', up + B(b'-') + rev)
    d.field(b'Distribution', dist)
    d.field(b'Urgency', urg)
    d.field(b'Maintainer', maint)
    d.field(b'Changed-By', chby)
    if closes:
        d.field(b'Closes', J(closes, b' '))
    d.field(b'Changes', (), [chl[0], B(b'.'), chl[1]])
    d.field(b'Checksums-Sha1', (), [h + B(b' ') + B(s) + B(b' ') + f for h, s, c_, p, f in files])
    d.field(b'Checksums-Sha256', (), [h + B(b' ') + B(s) + B(b' ') + f for h, s, c_, p, f in files])
    d.field(b'Files', (), [h + B(b' ') + B(s) + B(b' ') + c_ + B(b' ') + p + B(b' ') + f for h, s, c_, p, f in files])
    add(exp, b'Filename', path)
    add(exp, b'Format', b'1.8')
    add(exp, b'Source', src)
    add(exp, b'Binaries', dstrs(bins))
    add(exp, b'Architectures', dstrs([darch(a) for a in archs]))
    add(exp, b'Version', dver(up, rev))
    add(exp, b'Origin', b'')
    add(exp, b'Distribution', dist)
    add(exp, b'Urgency', urg)
    add(exp, b'Maintainer', maint)
    add(exp, b'ChangedBy', chby)
    add(exp, b'Closes', dstrs(closes))
    add(exp, b'Changes', chl[0] + (10, 10) + chl[1])
    add(exp, b'ChecksumsSha1', dstrs([dhash(b'sha1', h, s, f) for h, s, c_, p, f in files]))
    add(exp, b'ChecksumsSha256', dstrs([dhash(b'sha256', h, s, f, b'SHA256') for h, s, c_, p, f in files]))
    add(exp, b'Files', dstrs([dhash(b'md5', h, s, f) + B(b':') + c_ + B(b':') + p for h, s, c_, p, f in files]))
    add(exp, b'AbsFiles()', dstrs([B(b'/in/') + f for h, s, c_, p, f in files]))
    return 'VerifC10Changes', [Str(d.text()), mkstr(path), Str(sum(exp, ()))], d.sym.assume


def control(variant, L):
    d = Doc(L)
    exp = []
    path = b'debian/control'
    src, prio, sect = d.leaf(), d.leaf(), d.leaf()
    maint = d.leaf(TXT, TXT) + B(b' <m@x>')
    ups = [d.leaf(TXT, TXT) + B(b' Doe <a@x>'), d.leaf(TXT, TXT) + B(b' <b@x>')] if variant == 'a' else []
    bd_t, bd_d = d.dep([[VERS], [SIMPLE]])
    bdi_t, bdi_d = d.dep([[SIMPLE]])
    bc_t, bc_d = d.dep([[SIMPLE]])
    d.field(b'Source', src)
    d.field(b'Section', sect)
    d.field(b'Priority', prio)
    d.field(b'Maintainer', maint)
    if ups:
        d.field(b'Uploaders', ups[0] + B(b','), [ups[1]])
    d.field(b'Build-Depends', bd_t)
    d.field(b'Build-Depends-Indep', bdi_t)
    d.field(b'Build-Conflicts', bc_t)
    d.field(b'Standards-Version', b'4.6.0')
    add(exp, b'Filename', path)
    add(exp, b'Maintainer', maint)
    add(exp, b'Uploaders', dstrs(ups))
    add(exp, b'Source', src)
    add(exp, b'Priority', prio)
    add(exp, b'Section', sect)
    add(exp, b'Description', b'')
    add(exp, b'BuildDepends', bd_d)
    add(exp, b'BuildDependsIndep', bdi_d)
    add(exp, b'BuildConflicts', bc_d)
    add(exp, b'BuildConflictsIndep', b'')
    add(exp, b'Maintainers()', dstrs([maint] + ups))
    nbin = 2 if variant == 'a' else 1
    for i in range(nbin):
        d.blank()
        pkg = d.leaf()
        archs = [[b'any'], [b'amd64', b'kfreebsd-any']][i]
        ess = (i == 1)
        short, long_ = d.leaf(TXT, TXT), d.leaf(bytes(set(TXT) - set(b'.')), TXT)
        dep_t, dep_d = d.dep([[SUBST], [SIMPLE, VERS]])
        rec_t, rec_d = d.dep([[SIMPLE]])
        pre_t, pre_d = d.dep([[VERS]])
        brk_t, brk_d = d.dep([[VERS]])
        d.field(b'Package', pkg)
        d.field(b'Architecture', J([B(a) for a in archs], b' '))
        if ess:
            d.field(b'Essential', b'yes')
        d.field(b'Depends', dep_t)
        d.field(b'Recommends', rec_t)
        d.field(b'Pre-Depends', pre_t)
        d.field(b'Breaks', brk_t)
        d.field(b'Description', short, [long_, B(b'.'), long_])
        conff = [(B(b'/etc/') + d.leaf(), d.leaf(HEX, HEX, n=2))] if i == 0 else []
        if conff:
            d.field(b'Conffiles', (), [f + B(b' ') + h for f, h in conff])
        add(exp, b'B.Architectures', dstrs([darch(a) for a in archs]))
        add(exp, b'B.Package', pkg)
        add(exp, b'B.Priority', b'')
        add(exp, b'B.Section', b'')
        add(exp, b'B.Essential', b'yes' if ess else b'no')
        add(exp, b'B.Description', short + (10,) + long_ + (10, 10) + long_)
        add(exp, b'B.Conffiles', dstrs([B(b'md5:') + h + B(b':0:') + f + B(b':') for f, h in conff]))
        add(exp, b'B.Depends', dep_d)
        add(exp, b'B.Recommends', rec_d)
        add(exp, b'B.Suggests', b'')
        add(exp, b'B.Enhances', b'')
        add(exp, b'B.PreDepends', pre_d)
        add(exp, b'B.Breaks', brk_d)
        add(exp, b'B.Conflicts', b'')
        add(exp, b'B.Replaces', b'')
        add(exp, b'B.BuiltUsing', b'')
    return 'VerifC10Control', [Str(d.text()), mkstr(path), Str(sum(exp, ()))], d.sym.assume


def packages(variant, L):
    d = Doc(L)
    exp = []
    # sizes: small literals, the 32-bit and 64-bit boundaries (a .deb of 2 GiB and more is legal), or symbolic digits
    isz, sz = {'a': (B(b'1420'), B(b'5032')), 'b': (B(b'1420'), B(b'5032')), 'c': (B(b'2147483648'), B(b'9223372036854775807')),
               'd': (d.leaf(b'123456789', DIGITS), B(b'4294967296'))}[variant]
    for i in range(2 if variant == 'a' else 1):
        if i:
            d.blank()
        pkg = d.leaf()
        srcfield = [(pkg + B(b'-defaults (1.0)')) if variant in ('b', 'd') else (d.leaf() + B(b' (1.0)')), None][i]
        up, rev = d.leaf(DIGITS, LOWD + b'.'), d.leaf(LOWD, LOWD)
        maint = d.leaf(TXT, TXT) + B(b' <m@x>')
        arch = [b'amd64', b'all'][i]
        desc, home, md5d = d.leaf(TXT, TXT), d.leaf(TXT, TXT), d.leaf(HEX, HEX, n=2)
        tags = [d.leaf() + B(b'::') + d.leaf(), d.leaf()] if i == 0 else []
        sect, prio, fn = d.leaf(), d.leaf(), B(b'pool/') + d.leaf() + B(b'.deb')
        m5, s1, s256 = d.leaf(HEX, HEX, n=2), d.leaf(HEX, HEX, n=2), d.leaf(HEX, HEX, n=2)
        ids = [d.leaf(HEX, HEX, n=2), d.leaf(HEX, HEX, n=2)] if i == 0 else []
        dep_t, dep_d = d.dep([[VERS], [SIMPLE, SIMPLE]])
        con_t, con_d = d.dep([[SIMPLE]])
        d.field(b'Package', pkg)
        if srcfield is not None:
            d.field(b'Source', srcfield)
        d.field(b'Version', up + B(b'-') + rev)
        d.field(b'Installed-Size', isz)
        d.field(b'Maintainer', maint)
        d.field(b'Architecture', arch)
        d.field(b'Multi-Arch', b'foreign')
        d.field(b'Depends', dep_t)
        d.field(b'Conflicts', con_t)
        d.field(b'Description', desc)
        d.field(b'Homepage', home)
        d.field(b'Description-md5', md5d)
        if tags:
            d.field(b'Tag', J(tags, b', '))
            d.field(b'Tags', J(tags, b', '))
        d.field(b'Section', sect)
        d.field(b'Priority', prio)
        d.field(b'Filename', fn)
        d.field(b'Size', sz)
        d.field(b'MD5sum', m5)
        d.field(b'SHA1', s1)
        d.field(b'SHA256', s256)
        if ids:
            d.field(b'Build-Ids', J(ids, b' '))
        exp.append(B(b'#'))
        add(exp, b'Package', pkg)
        add(exp, b'Source', srcfield if srcfield is not None else b'')
        add(exp, b'Version', dver(up, rev))
        add(exp, b'InstalledSize', isz)
        add(exp, b'Maintainer', maint)
        add(exp, b'Architecture', darch(arch))
        add(exp, b'MultiArch', b'foreign')
        add(exp, b'Description', desc)
        add(exp, b'Homepage', home)
        add(exp, b'DescriptionMD5', md5d)
        add(exp, b'Tags', dstrs(tags))
        add(exp, b'Section', sect)
        add(exp, b'Priority', prio)
        add(exp, b'Filename', fn)
        add(exp, b'Size', sz)
        add(exp, b'MD5sum', m5)
        add(exp, b'SHA1', s1)
        add(exp, b'SHA256', s256)
        add(exp, b'DebugBuildIds', dstrs(ids))
        add(exp, b'SourcePackage()', srcfield[:-6] if srcfield is not None else pkg)
        add(exp, b'GetDepends()', dep_d)
        add(exp, b'GetConflicts()', con_d)
        add(exp, b'GetPreDepends()', b'')
    return 'VerifC10Packages', [Str(d.text()), Str(sum(exp, ()))], d.sym.assume


def sources(variant, L):
    d = Doc(L)
    exp = []
    pkg = d.leaf()
    bins = [d.leaf(), d.leaf()]
    up, rev = d.leaf(DIGITS, LOWD + b'.'), d.leaf(LOWD, LOWD)
    maint = d.leaf(TXT, TXT) + B(b' <m@x>')
    upl = d.leaf(TXT, TXT) + B(b' A <a@x>, B <b@x>')
    archs = [b'any', b'all']
    files = [(d.leaf(HEX, HEX, n=2), b'1999' if variant == 'a' else b'4294967296', d.leaf() + B(b'.dsc'))]
    vb, vg, home, direc, prio, sect = d.leaf(TXT, TXT), d.leaf(TXT, TXT), d.leaf(TXT, TXT), B(b'pool/main/') + d.leaf(), d.leaf(), d.leaf()
    bd_t, bd_d = d.dep([[VERS], [SIMPLE]])
    bdi_t, bdi_d = d.dep([[SIMPLE]])
    d.field(b'Package', pkg)
    if variant == 'b':
        d.field(b'Binary', bins[0] + B(b','), [bins[1]])
    else:
        d.field(b'Binary', J(bins, b', '))
    d.field(b'Version', up + B(b'-') + rev)
    d.field(b'Maintainer', maint)
    d.field(b'Uploaders', upl)
    d.field(b'Build-Depends', bd_t)
    d.field(b'Build-Depends-Indep', bdi_t)
    d.field(b'Architecture', J([B(a) for a in archs], b' '))
    d.field(b'Standards-Version', b'4.6.2')
    d.field(b'Format', b'3.0 (quilt)')
    d.field(b'Files', (), [h + B(b' ') + B(s) + B(b' ') + f for h, s, f in files])
    d.field(b'Vcs-Browser', vb)
    d.field(b'Vcs-Git', vg)
    d.field(b'Checksums-Sha1', (), [h + B(b' ') + B(s) + B(b' ') + f for h, s, f in files])
    d.field(b'Checksums-Sha256', (), [h + B(b' ') + B(s) + B(b' ') + f for h, s, f in files])
    d.field(b'Homepage', home)
    d.field(b'Directory', direc)
    d.field(b'Priority', prio)
    d.field(b'Section', sect)
    exp.append(B(b'#'))
    add(exp, b'Package', pkg)
    add(exp, b'Binaries', dstrs(bins))
    add(exp, b'Version', dver(up, rev))
    add(exp, b'Maintainer', maint)
    add(exp, b'Uploaders', upl)
    add(exp, b'Architecture', dstrs([darch(a) for a in archs]))
    add(exp, b'StandardsVersion', b'4.6.2')
    add(exp, b'Format', b'3.0 (quilt)')
    add(exp, b'Files', dstrs([dhash(b'md5', h, s, f) for h, s, f in files]))
    add(exp, b'VcsBrowser', vb)
    add(exp, b'VcsGit', vg)
    add(exp, b'ChecksumsSha1', dstrs([dhash(b'sha1', h, s, f) for h, s, f in files]))
    add(exp, b'ChecksumsSha256', dstrs([dhash(b'sha256', h, s, f, b'SHA256') for h, s, f in files]))
    add(exp, b'Homepage', home)
    add(exp, b'Directory', direc)
    add(exp, b'Priority', prio)
    add(exp, b'Section', sect)
    add(exp, b'GetBuildDepends()', bd_d)
    add(exp, b'GetBuildDependsIndep()', bdi_d)
    return 'VerifC10Sources', [Str(d.text()), Str(sum(exp, ()))], d.sym.assume


def best(variant, L):
    d = Doc(L)
    f256 = [(d.leaf(HEX, HEX, n=2), b'10', d.leaf())]
    f512 = [(d.leaf(HEX, HEX, n=2), b'10', d.leaf()), (d.leaf(HEX, HEX, n=2), b'22', d.leaf())]
    d.field(b'Origin', b'x')
    if variant in ('256', 'both'):
        d.field(b'Checksums-Sha256', (), [h + B(b' ') + B(s) + B(b' ') + f for h, s, f in f256])
    if variant in ('512', 'both'):
        d.field(b'Checksums-Sha512', (), [h + B(b' ') + B(s) + B(b' ') + f for h, s, f in f512])
    if variant in ('256', 'both'):
        exp = dstrs([dhash(b'sha256', h, s, f, b'SHA256') for h, s, f in f256])
    else:
        exp = dstrs([dhash(b'sha512', h, s, f, b'SHA512') for h, s, f in f512])
    return 'VerifC10Best', [Str(d.text()), Str(exp)], d.sym.assume


KINDS = [('dsc', dsc, ('single', 'folded', 'one')), ('changes', changes, ('a', 'b')), ('control', control, ('a', 'b')), ('packages', packages, ('a', 'b', 'c', 'd')),
         ('sources', sources, ('a', 'b')), ('best', best, ('256', '512', 'both'))]


def jobs(tier):
    js = []
    for name, fn, variants in KINDS:
        for v in variants:
            for L in ((1, 2) if tier == 'quick' else (1, 2, 3)):
                js.append(dict(name='%s_%s_L%d' % (name, v, L), kind=name, variant=v, L=L))
    return js


def run_job(env, job):
    fn = dict((k, f) for k, f, _ in KINDS)[job['kind']]
    func, args, assume = fn(job['variant'], job['L'])
    return run_harness(env, PKG, func, args, assume, unwind=max(400, len(args[0]) + 100), timeout_ms=300000,
                       sample=dict(document=job['kind'], variant=job['variant'], leaf_len=job['L'], bytes=len(args[0])))


def validation_calls(env, seed):
    dscdoc = open(os.path.join(os.path.dirname(os.path.abspath(__file__)), 'data', 'c10_example.dsc'), 'rb').read() if os.path.exists(os.path.join(os.path.dirname(os.path.abspath(__file__)), 'data', 'c10_example.dsc')) else None
    calls = []
    calls.append(('VerifC10Best', [b'Origin: x\nChecksums-Sha256:\n aa 10 f\n', b'[sha256:aa:10:f:SHA256]']))
    calls.append(('VerifC10Dsc', [b'Format: 1.0\nSource: s\nBinary: a, b\nArchitecture: any\nVersion: 1-1\nMaintainer: M <m@x>\nFiles:\n aa 1 s.debian.tar.xz\n', b'/d/s.dsc', b'wrong']))
    calls.append(('VerifC10Packages', [b'Package: p\nVersion: 1-1\nInstalled-Size: 5\nSize: 7\nArchitecture: all\n', b'wrong']))
    return calls


if __name__ == '__main__':
    runner.main(sys.modules[__name__])
