#!/usr/bin/env python3
# C07 - control-file reader recovers every paragraph, field and value.
import os, sys, random, itertools
sys.path.insert(0, os.path.dirname(os.path.abspath(__file__)))
from common import *

ID = 'C07'
PKG = 'control'
C = MOD + '/control.'
ROOTS = [C + 'VerifC07Inv', C + 'VerifC07Doc', C + 'VerifC07Slice']
BOUNDS = {'quick': dict(N=5), 'thorough': dict(N=7)}
NAMEC = b'ABCDEFGHIJKLMNOPQRSTUVWXYZabcdefghijklmnopqrstuvwxyz0123456789-'
VIS = bytes(range(0x21, 0x7f))
PRN = bytes(range(0x20, 0x7f)) + b'\t'
# byte classes the reader distinguishes (for splitting the raw-input jobs)
RAWCLS = [b'\n', b'\r', b' \t', b'#', b':', b'.', b'-']
META = dict(
    functions_encoded=['control.NewParagraphReader', '(*ParagraphReader).Next', '(*ParagraphReader).All', 'control.Unmarshal', '(*Decoder).Decode', 'control.decode',
                       'control.decodeSlice', 'control.decodeStruct', 'bufio.NewReader', '(*bufio.Reader).Peek/ReadString/ReadSlice/fill/collectFragments', '(*strings.Reader).Read',
                       'strings.TrimSpace', 'strings.TrimRightFunc', 'strings.SplitN (model)'],
    stubs=['bytes.IndexByte (position case split)', 'fmt.Errorf (opaque error)', 'reflect (model over the interpreter heap, see engine/symgo/reflectmodel.py)', 'unicode.IsSpace table'],
    bounds={'quick': 'invariant: every byte string (all 256 values) of length <= 5; documents: 1-2 paragraphs x 1-2 fields, five value shapes (single line, first+continuation, empty first line, " ." empty line, two continuations), LF/CRLF, space/tab continuation marker, final newline or not, 1-2 separator lines, leading blank line, comment lines at start / between fields / inside a continuation / at the end, 1-2 trailing blanks (space or tab) on every line, physical lines of more than 4200 bytes (longer than the bufio buffer); names 1-2, texts 1-2 symbolic printable characters',
            'thorough': 'invariant: length <= 7; documents: texts of 1-3 characters, all two-paragraph combinations'},
    outside_claim=['documents beyond the template bound', 'whitespace-only lines inside a paragraph (not well-formed deb822)'],
    assumptions=['a value is compared on its logical lines: one trailing newline (added by the reader to every folded value) is not significant, an empty first line followed by continuation lines is not a line (the reader\'s documented treatment of Files:-style fields)'])


class Sym:
    def __init__(self):
        self.n = 0
        self.assume = []

    def leaf(self, n, first, rest, last=None):
        self.n += 1
        s = symstr('l%d' % self.n, n)
        for i, c in enumerate(s):
            al = first if i == 0 else rest
            if last is not None and i == n - 1:
                al = bytes(set(al) & set(last))
            self.assume.append(in_set(c, al))
        return tuple(s)


SHAPES = ['single', 'first_cont', 'empty_cont', 'first_dot_cont', 'empty_cont_cont', 'empty_dot']


def mk_field(sym, idx, shape, L):
    """returns (name, first, conts) ; conts entries: text tuple, or () for the ' .' empty line"""
    firsts = [b'ABCDEFGHIJKLM', b'NOPQRSTUVWXYZ', b'abcdefghijklm', b'nopqrstuvwxyz']
    name = sym.leaf(L, firsts[idx % 4], NAMEC)
    text = lambda: sym.leaf(L, VIS, PRN, last=VIS)
    ctext = lambda: sym.leaf(L, bytes(set(VIS) - set(b'.')) if L == 1 else PRN, PRN, last=VIS)
    if shape == 'long_single':
        return name, tuple(b'v' * 4200) + text(), []
    if shape == 'long_cont':
        return name, text(), [tuple(b'c' * 4200) + ctext(), ctext()]
    if shape == 'single':
        return name, text(), []
    if shape == 'first_cont':
        return name, text(), [ctext()]
    if shape == 'empty_cont':
        return name, (), [ctext()]
    if shape == 'first_dot_cont':
        return name, text(), [(), ctext()]
    if shape == 'empty_cont_cont':
        return name, (), [ctext(), ctext()]
    if shape == 'empty_dot':
        return name, (), [(), ctext()]
    raise ValueError(shape)


def render(paras, opt, sym):
    """paras: [[(name, first, conts)]] -> (document bytes, expected dump)"""
    eol = (13, 10) if opt['crlf'] else (10,)
    mark = (9,) if opt['tab'] else (32,)
    trail = ()
    if opt.get('trail'):
        # trailing blanks on every field and continuation line (the same symbolic space-or-tab byte): to be removed
        tb = symstr('tb', 1)[0]
        sym.assume.append(in_set(tb, b' \t'))
        trail = (tb,) * opt['trail']
    lines = []
    dump = ()
    for _ in range(opt.get('leading', 0)):
        lines.append(())
    if opt.get('comment') == 'start':
        lines.append((35,) + sym.leaf(1, PRN, PRN))
    for pi, fields in enumerate(paras):
        if pi:
            for _ in range(opt.get('sep', 1)):
                lines.append(())
            if opt.get('comment') == 'between_paras':
                lines.append((35,) + sym.leaf(1, PRN, PRN))
                lines.append(())
        dump += (80,)
        for fi, (name, first, conts) in enumerate(fields):
            if fi and opt.get('comment') == 'between':
                lines.append((35,) + sym.leaf(1, PRN, PRN))
            lines.append(tuple(name) + (58,) + ((32,) if (first or opt.get('space_after_colon')) else ()) + tuple(first) + trail)
            logical = [tuple(first)] if (first or not conts) else []
            for ci, c in enumerate(conts):
                if ci == 0 and opt.get('comment') == 'inside':
                    lines.append((35,) + sym.leaf(1, PRN, PRN))
                lines.append(mark + (tuple(c) if c else (46,)) + trail)
                logical.append(tuple(c))
            text = ()
            for k, l in enumerate(logical):
                if k:
                    text += (10,)
                text += l
            dump += tuple(name) + (0,) + text + (0,)
    if opt.get('comment') == 'end':
        lines.append((35,) + sym.leaf(1, PRN, PRN))
    doc = ()
    for i, l in enumerate(lines):
        doc += l
        if i < len(lines) - 1 or opt.get('final', True):
            doc += eol
    for _ in range(opt.get('trailing_blank', 0)):
        doc += eol
    return doc, dump


def templates(tier):
    ts = []
    L = 2 if tier == 'quick' else 3
    # one paragraph, 1-2 fields, all shapes x rendering options
    combos = [(s,) for s in SHAPES] + list(itertools.product(SHAPES, repeat=2))
    k = 0
    for combo in combos:
        for crlf, tab, final in itertools.product((False, True), repeat=3):
            k += 1
            if tier == 'quick' and len(combo) == 2 and k % 2:
                continue
            ts.append(dict(paras=[list(combo)], opt=dict(crlf=crlf, tab=tab, final=final), L=1 + (k % L)))
        for crlf, nt in ((False, 1), (True, 1), (False, 2)):
            ts.append(dict(paras=[list(combo)], opt=dict(crlf=crlf, tab=False, final=True, trail=nt), L=1))
        for cm in ('start', 'between', 'inside', 'end'):
            if cm == 'between' and len(combo) < 2:
                continue
            ts.append(dict(paras=[list(combo)], opt=dict(crlf=False, tab=False, final=True, comment=cm), L=1))
    two = ['single', 'first_cont'] if tier == 'quick' else SHAPES[:4]
    pcs = [(s,) for s in two] + list(itertools.product(two, repeat=2))
    k = 0
    for pa in pcs:
        for pb in pcs:
            for sep, leading, crlf, final in itertools.product((1, 2), (0, 1), (False, True), (False, True)):
                k += 1
                if tier == 'quick' and k % 3:
                    continue
                ts.append(dict(paras=[list(pa), list(pb)], opt=dict(crlf=crlf, tab=False, final=final, sep=sep, leading=leading, trailing_blank=k % 2,
                                                                    comment='between_paras' if k % 5 == 0 else None), L=1))
    for combo in (['long_single'], ['single', 'long_single'], ['long_cont', 'single'], ['long_single', 'long_cont']):
        for crlf in (False, True):
            ts.append(dict(paras=[combo], opt=dict(crlf=crlf, tab=False, final=True), L=1))
    three = [['single'], ['first_cont'], ['single', 'single']]
    ts.append(dict(paras=three, opt=dict(crlf=False, tab=False, final=True, sep=1), L=1))
    ts.append(dict(paras=three, opt=dict(crlf=True, tab=True, final=False, sep=2, leading=1), L=1))
    return ts


def jobs(tier):
    b = BOUNDS[tier]
    used = b''.join(RAWCLS)
    cls = RAWCLS + [bytes(x for x in range(256) if x not in used)]
    js = []
    for n in range(b['N'] + 1):
        depth = 0 if n <= 2 else (1 if n <= 4 else 2 if n <= 6 else 3)
        for part in itertools.product(range(len(cls)), repeat=depth):
            js.append(dict(name='inv_%d_%s' % (n, '_'.join(map(str, part))), kind='inv', n=n, part=list(part)))
    nt = len(templates(tier))
    js += [dict(name='doc_%d' % i, kind='doc', lo=i, hi=min(i + 30, nt), n=0) for i in range(0, nt, 30)]
    js.sort(key=lambda j: -j['n'])
    return js


def run_doc(env, t):
    sym = Sym()
    paras = []
    for fields in t['paras']:
        paras.append([mk_field(sym, i, sh, t['L']) for i, sh in enumerate(fields)])
    doc, dump = render(paras, t['opt'], sym)
    r1 = run_harness(env, PKG, 'VerifC07Doc', [Str(doc), Str(dump)], sym.assume, unwind=len(doc) + 40,
                     sample=dict(paragraphs=t['paras'], options={k: v for k, v in t['opt'].items() if v}, leaf_len=t['L']))
    r2 = run_harness(env, PKG, 'VerifC07Slice', [Str(doc), Str(dump)], sym.assume, unwind=len(doc) + 40,
                     sample=dict(via='Unmarshal into a slice of structs embedding Paragraph', paragraphs=t['paras']))
    return merge_results([r1, r2])


def run_job(env, job):
    if job['kind'] == 'doc':
        return merge_results([run_doc(env, t) for t in templates(env.tier)[job['lo']:job['hi']]])
    n = job['n']
    s = symstr('s', n)
    used = b''.join(RAWCLS)
    cls = RAWCLS + [bytes(x for x in range(256) if x not in used)]
    assume = [in_set(s[pos], cls[ci]) for pos, ci in enumerate(job['part'])]
    return run_harness(env, PKG, 'VerifC07Inv', [s], assume, unwind=n + 40, sample='all byte strings of length %d, leading classes %r' % (n, job['part']))


def validation_calls(env, seed):
    rnd = random.Random(seed)
    calls = []
    lits = [b'', b'A: b\n', b'A: b\n c\n\nD: e', b' x\n', b'A: 1\nA: 2\n', b'\n\nA: b', b'#c\nA: b\r\n\r\n', b'A:\n .\n x\n', b'A b\n', b'A: b\n\tc\n', b':\n', b'A: b\n \n']
    for _ in range(30):
        lits.append(bytes(rnd.choice(b'A: \n\t#.b\r') for _ in range(rnd.randint(0, 9))))
    for s in lits:
        calls.append(('VerifC07Inv', [s]))
    calls.append(('VerifC07Doc', [b'A: b\n c\n\nD: e', b'PA\x00b\nc\x00PD\x00e\x00']))
    calls.append(('VerifC07Doc', [b'F:\n x\n .\n y\n', b'PF\x00x\n\ny\x00']))
    calls.append(('VerifC07Slice', [b'A: b\n c\n\nD: e', b'PA\x00b\nc\x00PD\x00e\x00']))
    return calls


if __name__ == '__main__':
    runner.main(sys.modules[__name__])
