#!/usr/bin/env python3
# C03 - version strings parse to their parts and render back without loss.
import os, sys, random, itertools
sys.path.insert(0, os.path.dirname(os.path.abspath(__file__)))
from common import *

ID = 'C03'
PKG = 'version'
V = MOD + '/version.'
ROOTS = [V + n for n in ('VerifC03Round', 'VerifC03Grammar', 'VerifC03Reject', 'VerifC03Reuse')]
UPC = DIGITS + ALPHA + b'.+~'
BOUNDS = {'quick': dict(N=5, U=3, R=2, E=3), 'thorough': dict(N=7, U=4, R=3, E=3)}
META = dict(
    functions_encoded=['version.Parse', 'version.parseInto', 'version.parseInto$1', 'version.parseInto$2', 'version.Version.String',
                       'version.Version.StringWithoutEpoch', 'version.(*Version).MarshalText', 'version.(*Version).UnmarshalText',
                       'version.Version.MarshalControl', 'version.(*Version).UnmarshalControl', 'strings.TrimSpace', 'strings.IndexFunc',
                       'strconv.ParseInt', 'strconv.ParseUint'],
    stubs=['fmt.Sprintf (model of %d/%s)', 'fmt.Errorf (opaque non-nil error)', 'encoding/json.Marshal (contract for strings without escapes)',
           'strings.Index/LastIndex (position case split)', 'unicode.IsSpace / IsDigit (Latin-1 + White_Space table)', 'utf8 decoding (complete case split)'],
    bounds={'quick': 'round trip: every ASCII string of length <= 5; grammar templates: epoch 0-3 symbolic digits (+2^31-1, 2^63-1), upstream <= 3, revision <= 2, optional one-byte whitespace at either end; reject classes with symbolic witnesses of length <= 5; receivers re-used for a second UnmarshalControl / UnmarshalText (first string <= 5, second <= 3 characters over [0-9:-.a])',
            'thorough': 'round trip: every ASCII string of length <= 7; grammar: upstream <= 4, revision <= 3'},
    outside_claim=['strings longer than the bound', 'non-ASCII input in the round-trip query (covered by the reject class for characters outside the alphabet and by C18)'],
    assumptions=['equality of versions is field-wise (Epoch, Version, Revision)'])


def classes():
    return [WS, DIGITS, b':', b'-', ALPHA, b'.+~']


def jobs(tier):
    b = BOUNDS[tier]
    js = []
    N = b['N']
    other = bytes(x for x in range(128) if all(x not in c for c in classes()))
    cls = classes() + [other]
    for n in range(N + 1):
        if n <= 2:
            js.append(dict(name='round_%d' % n, kind='round', n=n, part=[]))
        elif n <= 4:
            for i, c in enumerate(cls):
                js.append(dict(name='round_%d_c%d' % (n, i), kind='round', n=n, part=[i]))
        else:
            for i, c in enumerate(cls):
                for j, d in enumerate(cls):
                    js.append(dict(name='round_%d_c%d_%d' % (n, i, j), kind='round', n=n, part=[i, j]))
    for w1, w2 in itertools.product((0, 1), (0, 1)):
        for e in [None, 1, 2, 3, b'0', b'2147483647', b'9223372036854775807']:
            for u in range(1, b['U'] + 1):
                for r in [None] + list(range(1, b['R'] + 1)):
                    if isinstance(e, int) and e > b['E']:
                        continue
                    js.append(dict(name='gram_w%d%d_e%s_u%d_r%s' % (w1, w2, e if not isinstance(e, bytes) else e.decode(), u, r), kind='gram', w1=w1, w2=w2, e=e, u=u, r=r))
    for n1 in (3, 4, 5):
        for n2 in (1, 2, 3):
            js.append(dict(name='reuse_%d_%d' % (n1, n2), kind='reuse', n1=n1, n2=n2, n=0))
    for cl in ('epoch_nondigit', 'negative', 'oversized', 'embedded_ws', 'nothing_after_colon', 'first_not_digit', 'bad_char', 'empty'):
        js.append(dict(name='reject_' + cl, kind='reject', cl=cl))
    js.sort(key=lambda j: -j.get('n', 0))
    return js


def run_job(env, job):
    k = job['kind']
    if k == 'round':
        n = job['n']
        s = symstr('s', n)
        assume = [z3.ULT(c, 128) for c in s]
        other = bytes(x for x in range(128) if all(x not in c for c in classes()))
        cls = classes() + [other]
        for pos, ci in enumerate(job['part']):
            assume.append(in_set(s[pos], cls[ci]))
        return run_harness(env, PKG, 'VerifC03Round', [s], assume, unwind=n + 24, sample='all ASCII strings of length %d, first bytes in classes %r' % (n, job['part']))
    if k == 'reuse':
        s1, s2 = symstr('p', job['n1']), symstr('q', job['n2'])
        assume = [in_set(c, b'0123456789:-.a') for c in list(s1) + list(s2)]
        return run_harness(env, PKG, 'VerifC03Reuse', [s1, s2], assume, unwind=64, sample='a receiver that holds a version of %d characters over [0-9:-.a] re-used for one of %d characters' % (job['n1'], job['n2']))
    if k == 'gram':
        w1, w2 = symstr('w1', job['w1']), symstr('w2', job['w2'])
        assume = [in_set(c, WS) for c in list(w1) + list(w2)]
        e = job['e']
        has_e = e is not None
        if isinstance(e, int):
            ep = symstr('e', e)
            assume += [in_set(c, DIGITS) for c in ep]
        elif e is None:
            ep = Str()
        else:
            ep = mkstr(e)
        up = symstr('u', job['u'])
        has_r = job['r'] is not None
        rv = symstr('r', job['r'] or 0)
        assume.append(in_set(up[0], DIGITS))
        upc = UPC + (b'-' if has_r else b'') + (b':' if has_e else b'')
        assume += [in_set(c, upc) for c in up[1:]]
        assume += [in_set(c, UPC) for c in rv]
        return run_harness(env, PKG, 'VerifC03Grammar', [w1, ep, up, rv, w2, has_e, has_r], assume, unwind=64, sample=job['name'])
    # reject classes
    cl = job['cl']
    res = []

    def rej(parts, assume, sample):
        s = Str(sum((tuple(p) for p in parts), ()))
        res.append(run_harness(env, PKG, 'VerifC03Reject', [s], assume, unwind=64, sample='%s: %s' % (cl, sample)))
    if cl == 'epoch_nondigit':
        for ne in (1, 2, 3):
            e = symstr('e', ne)
            u = symstr('u', 1)
            # at least one epoch character is not a digit; a leading sign is not counted; the epoch holds no ':' or whitespace
            nd = [z3.Not(in_set(c, DIGITS)) for c in e]
            nd[0] = z3.And(nd[0], e[0] != ord('+'), e[0] != ord('-'))
            assume = [z3.Or(*nd), in_set(u[0], DIGITS)] + [z3.And(c != ord(':'), z3.Not(in_set(c, WS)), z3.ULT(c, 128)) for c in e]
            rej([e, b':', u], assume, 'E:U with a non-digit in E, |E|=%d' % ne)
    elif cl == 'negative':
        for nd in (1, 2):
            d = symstr('d', nd)
            assume = [in_set(c, DIGITS) for c in d] + [z3.Or(*[c != ord('0') for c in d])]
            rej([b'-', d, b':1'], assume, '-D:1 with D != 0, |D|=%d' % nd)
    elif cl == 'oversized':
        for e in (b'9223372036854775808', b'18446744073709551615', b'18446744073709551616', b'99999999999999999999', b'100000000000000000000'):
            rej([e, b':1'], [], e.decode() + ':1')
        d = symstr('d', 1)
        rej([b'922337203685477580', d, b':1'], [in_set(d[0], b'89')], '922337203685477580[89]:1')
    elif cl == 'embedded_ws':
        for n1, n2 in ((1, 1), (2, 1), (1, 2)):
            a, w, b_ = symstr('a', n1), symstr('w', 1), symstr('b', n2)
            assume = [in_set(a[0], DIGITS)] + [in_set(c, UPC) for c in list(a[1:]) + list(b_)] + [in_set(w[0], WS)]
            rej([a, w, b_], assume, 'U1 ws U2 (%d,%d)' % (n1, n2))
    elif cl == 'nothing_after_colon':
        for ne in (1, 2):
            for nw in (0, 1):
                e, w = symstr('e', ne), symstr('w', nw)
                rej([e, b':', w], [in_set(c, DIGITS) for c in e] + [in_set(c, WS) for c in w], 'D: followed by %d whitespace' % nw)
    elif cl == 'first_not_digit':
        for pre in (b'', b'1:'):
            for nr in (0, 1, 2):
                c, r = symstr('c', 1), symstr('r', nr)
                assume = [in_set(c[0], ALPHA + b'.+~-')] + [in_set(x, UPC + b'-') for x in r]
                rej([pre, c, r], assume, '%sC rest(%d) with C not a digit' % (pre.decode(), nr))
    elif cl == 'bad_char':
        good = UPC + b'-:' + WS
        for where in ('upstream', 'revision'):
            for pos in (0, 1):
                for nx in ((1, 2) if env.tier == 'quick' else (1, 2, 3)):
                    # nx bytes none of which is in the alphabet (so also multi-byte UTF-8 letters and digits),
                    # always followed by a valid character so that it is not trailing whitespace
                    x = symstr('x', nx)
                    a, b_ = symstr('a', pos), symstr('b', 1)
                    assume = [z3.Not(in_set(c, good)) for c in x] + [in_set(c, UPC) for c in list(a) + list(b_)]
                    if where == 'upstream':
                        rej([b'1', a, x, b_], assume, 'upstream with %d byte(s) outside the alphabet at %d' % (nx, pos + 1))
                    else:
                        rej([b'1-', a, x, b_], assume, 'revision with %d byte(s) outside the alphabet at %d' % (nx, pos))
    elif cl == 'empty':
        for n in (0, 1, 2):
            w = symstr('w', n)
            rej([w], [in_set(c, WS) for c in w], 'only whitespace (%d)' % n)
    return merge_results(res)


def validation_calls(env, seed):
    rnd = random.Random(seed)
    calls = []
    lits = [b'1.0', b'1:2.0-3', b'  1.0 ', b'0:1:2', b'1-2-', b'-1', b'a', b'1 2', b'1:', b':1', b'1.0~rc1+b1-2', b'9223372036854775807:1',
            b'9223372036854775808:1', b'-1:2', b'+1:2', b'1\xc2\xa02', b'\xc2\xa01', b'1_0:1', b'1.0-', b'1:2:3-4-5', b'']
    for _ in range(40):
        n = rnd.randint(0, 7)
        lits.append(bytes(rnd.choice(b'0123456789:-.+~ab \t') for _ in range(n)))
    for s in lits:
        calls.append(('VerifC03Round', [s]))
        calls.append(('VerifC03Reject', [s]))
    calls.append(('VerifC03Grammar', [b' ', b'12', b'1.0-1', b'2', b'\n', True, True]))
    calls.append(('VerifC03Grammar', [b'', b'', b'1.0', b'', b'', False, False]))
    return calls


if __name__ == '__main__':
    runner.main(sys.modules[__name__])
