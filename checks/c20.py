#!/usr/bin/env python3
# C20 - upload Copy/Move/Remove act on the control file last and stay in-directory.
import os, sys, random, itertools
sys.path.insert(0, os.path.dirname(os.path.abspath(__file__)))
from common import *

ID = 'C20'
PKG = 'control'
C = MOD + '/control.'
ROOTS = [C + 'VerifC20Op', C + 'VerifC20Confine', C + 'VerifC20Seq']
META = dict(
    functions_encoded=['(*DSC).Copy/Move/Remove/AbsFiles', '(*Changes).Copy/Move/Remove/AbsFiles', 'internal.Copy', 'path.Join', 'path.Clean', 'filepath.Dir', 'filepath.Base'],
    stubs=['package os and io.Copy on files: a deterministic filesystem model (engine/symgo/osmodel.py): paths -> file content | directory | symbolic link (followed in the final component by open/create/stat/read, not by rename/remove/link); failures are those a real filesystem gives for the modelled state (missing source, a directory where a file is expected, a directory in the way of the destination); every call is logged with its path'],
    bounds={'quick': 'handles with k = 0..2 referenced files, both kinds, all three operations; fault configuration symbolic: every referenced file ok / missing / replaced by a directory (Copy) / a relative symbolic link to the real file (Copy, Remove), the control file ok / missing / a directory, a directory blocking any one destination name, a stale same-size file already at a destination name; two-step sequences on one handle (Copy, then Remove / Move / Copy elsewhere); confinement: one listed name ranging over every string of length 0..4 over {".", "/", "a"}',
            'thorough': 'k = 0..3; listed names up to length 6'},
    outside_claim=['Move of a referenced file that is a relative symbolic link (rename(2) moves the link text; links are not in the statement\'s quantifier)', 'a control file opened through a symbolic link (which directory is then its own is not fixed by the statement)', 'faults a real filesystem produces only under resource exhaustion (ENOSPC, EIO at Close): they are not natively replayable in this sandbox and are not modelled', 'concurrent modification of the directories'],
    assumptions=['the destination exists and is a directory'])


def jobs(tier):
    K = 2 if tier == 'quick' else 3
    N = 4 if tier == 'quick' else 6
    js = []
    for op, kind, k in itertools.product((0, 1, 2), (0, 1), range(K + 1)):
        js.append(dict(name='op%d_kind%d_k%d' % (op, kind, k), kind='op', op=op, hk=kind, k=k))
    for kind, k, second in itertools.product((0, 1), range(K + 1), (0, 1, 2)):
        js.append(dict(name='seq_kind%d_k%d_%d' % (kind, k, second), kind='seq', hk=kind, k=k, second=second))
    for op, kind in itertools.product((0, 1, 2), (0, 1)):
        for n in range(0, N + 1):
            js.append(dict(name='confine_op%d_kind%d_n%d' % (op, kind, n), kind='confine', op=op, hk=kind, n=n))
    return js


def confined(path, root):
    return path == root or path.startswith(root + b'/')


def run_job(env, job):
    if job['kind'] == 'op':
        op, k = job['op'], job['k']
        s = [z3.BitVec('s%d' % i, 64) for i in range(3)]
        ctl, block, stale = z3.BitVec('ctl', 64), z3.BitVec('block', 64), z3.BitVec('stale', 64)
        assume = []
        allowed = {0: (0, 1, 2), 1: (0, 1), 2: (0, 1)}[op]
        # state 3: the referenced file is a relative symbolic link (Copy must deliver the bytes, Remove takes the link);
        # moving a relative link is outside the claim (the statement's quantifier has no links, and rename(2) keeps the link text)
        allowed_f = allowed + ((3,) if op in (0, 2) else ())
        for i in range(3):
            assume.append(z3.Or(*[s[i] == v for v in allowed_f]) if i < k else s[i] == 0)
        assume.append(z3.Or(*[ctl == v for v in allowed]))
        assume.append(z3.And(block >= 0, block <= (k + 1 if op != 2 else 0)))
        assume.append(z3.And(stale >= 0, stale <= (k if op != 2 else 0)))
        if op == 1:
            # a directory in the way is only a fault for a plain file (rename of a directory over an empty directory succeeds)
            pass
        return run_harness(env, PKG, 'VerifC20Op', [op, job['hk'], k] + s + [ctl, block, stale], assume, unwind=200,
                           sample='%s on a %s with %d referenced files, symbolic fault configuration' % (['Copy', 'Move', 'Remove'][op], ['.dsc', '.changes'][job['hk']], k))
    if job['kind'] == 'seq':
        return run_harness(env, PKG, 'VerifC20Seq', [job['hk'], job['k'], job['second']], [], unwind=200,
                           sample='Copy, then %s on the same %s handle with %d referenced files' % (['Remove', 'Move elsewhere', 'Copy elsewhere'][job['second']], ['.dsc', '.changes'][job['hk']], job['k']))
    name = symstr('n', job['n'])
    return run_harness(env, PKG, 'VerifC20Confine', [job['op'], job['hk'], name], [in_set(c, b'./a') for c in name], unwind=200,
                       sample='%s with one listed name ranging over every string of length %d over {., /, a}; sentinels outside the source directory' % (['Copy', 'Move', 'Remove'][job['op']], job['n']))


def validation_calls(env, seed):
    calls = []
    for op in (0, 1, 2):
        for kind in (0, 1):
            calls.append(('VerifC20Op', [op, kind, 2, 0, 0, 0, 0, 0, 0]))
            calls.append(('VerifC20Op', [op, kind, 2, 0, 1, 0, 0, 0, 0]))
            calls.append(('VerifC20Op', [op, kind, 1, 0, 0, 0, 1, 0, 0]))
    calls.append(('VerifC20Op', [0, 0, 2, 2, 0, 0, 0, 0, 0]))
    calls.append(('VerifC20Op', [0, 0, 1, 0, 0, 0, 2, 0, 0]))
    calls.append(('VerifC20Op', [0, 0, 1, 0, 0, 0, 0, 1, 0]))
    calls.append(('VerifC20Op', [0, 0, 1, 0, 0, 0, 0, 2, 0]))
    calls.append(('VerifC20Op', [1, 1, 1, 0, 0, 0, 0, 2, 0]))
    calls.append(('VerifC20Op', [0, 0, 2, 0, 0, 0, 0, 0, 1]))
    calls.append(('VerifC20Op', [1, 1, 1, 0, 0, 0, 0, 0, 1]))
    calls.append(('VerifC20Op', [0, 0, 2, 3, 0, 0, 0, 0, 0]))
    calls.append(('VerifC20Op', [0, 1, 2, 0, 3, 0, 0, 0, 2]))
    calls.append(('VerifC20Op', [2, 0, 1, 3, 0, 0, 0, 0, 0]))
    for second in (0, 1, 2):
        calls.append(('VerifC20Seq', [second % 2, 2, second]))
    calls.append(('VerifC20Confine', [0, 0, b'a']))
    calls.append(('VerifC20Confine', [1, 1, b'']))
    calls.append(('VerifC20Confine', [2, 1, b'aa']))
    return calls


if __name__ == '__main__':
    runner.main(sys.modules[__name__])
