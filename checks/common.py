# helpers shared by the check modules
import os, sys
sys.path.insert(0, os.path.join(os.path.dirname(os.path.abspath(__file__)), '..', 'engine'))
import z3
from symgo.driver import *
from symgo import runner
from symgo.interp import Outcome

WS = bytes([9, 10, 11, 12, 13, 32])
DIGITS = b'0123456789'
ALPHA = b'ABCDEFGHIJKLMNOPQRSTUVWXYZabcdefghijklmnopqrstuvwxyz'


def concretize_args(m, args):
    out = []
    for a in args:
        if isinstance(a, Str):
            out.append(model_bytes(m, a))
        elif isinstance(a, z3.ExprRef):
            if z3.is_bool(a):
                out.append(z3.is_true(m.eval(a, model_completion=True)))
            else:
                out.append(m.eval(a, model_completion=True).as_long() if not getattr(a, '_signed', True) else m.eval(a, model_completion=True).as_signed_long())
        elif isinstance(a, (bytes, bytearray)):
            out.append(bytes(a))
        else:
            out.append(a)
    return out


def run_harness(env, pkg, func, args, assume=(), unwind=64, merge=False, timeout_ms=120000, sample=None, unsigned=(), interp_kw=None, setup=None):
    """symbolically execute harness `func` on args (Str / terms / python values); every outcome must be `return 0`."""
    I, ctx = env.interp(merge=merge, unwind=unwind, timeout_ms=timeout_ms, **(interp_kw or {}))
    I.track_globals = True
    I.stats['runs'] += 1
    for c in assume:
        ctx.assume(c)
    st = I.new_state()
    if setup:
        setup(I, st)
    pargs = [mkstr(a) if isinstance(a, (bytes, bytearray)) else a for a in args]
    outs = I.call('%s/%s.%s' % (MOD, pkg, func), pargs, st)

    def args_of(m):
        out = []
        for i, a in enumerate(pargs):
            if isinstance(a, Str):
                out.append(model_bytes(m, a))
            elif isinstance(a, z3.ExprRef):
                if z3.is_bool(a):
                    out.append(z3.is_true(m.eval(a, model_completion=True)))
                else:
                    v = m.eval(a, model_completion=True)
                    out.append(v.as_long() if i in unsigned else v.as_signed_long())
            else:
                out.append(a)
        return out
    cex, nobl = runner.outcome_violations(I, ctx, outs, pargs, func, args_of)
    if not outs:
        raise Inconclusive('vacuous: no path reached the end of harness %s (unsatisfiable assumptions?)' % func)
    return dict(status='viol' if cex else 'ok', cex=cex, obligations=nobl, npaths=len(outs), ret_sites=[[k[0], k[1], n] for k, n in I.ret_sites.items()], global_writes=sorted(I.global_writes), global_reads=sorted(I.global_reads),
                samples=[dict(harness=func, shape=sample, paths=len(outs), result='%d counterexample(s)' % len(cex) if cex else 'all paths return 0; no panic, no unwinding failure')],
                stats=dict(I.stats, **ctx.stats, solver_time=ctx.solver_time))


def merge_results(rs):
    out = dict(status='ok', cex=[], obligations=0, samples=[], stats={}, global_writes=[], global_reads=[], ret_sites=[])
    for r in rs:
        out['ret_sites'] += r.get('ret_sites', [])
        out['global_writes'] = sorted(set(out['global_writes']) | set(r.get('global_writes', ())))
        out['global_reads'] = sorted(set(out['global_reads']) | set(r.get('global_reads', ())))
        out['cex'] += r['cex']
        out['obligations'] += r['obligations']
        out['samples'] += r['samples'][:1]
        for k, v in r['stats'].items():
            if isinstance(v, (int, float)):
                out['stats'][k] = out['stats'].get(k, 0) + v
    if out['cex']:
        out['status'] = 'viol'
    return out
