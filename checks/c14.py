#!/usr/bin/env python3
# C14 - .deb loading exposes the package's control data and payload faithfully (wiring level).
import os, sys, random, itertools
sys.path.insert(0, os.path.dirname(os.path.abspath(__file__)))
from common import *
import c04, c10

ID = 'C14'
PKG = 'deb'
P = MOD + '/deb.'
ROOTS = [P + 'VerifC14Load', P + 'VerifC14Missing']
EXTS = [b'', b'.gz', b'.xz', b'.bz2', b'.lzma', b'.zst']
NATIVE_EXTS = {b'', b'.gz', b'.zst'}
LOW = b'abcdefghijklmnopqrstuvwxyz'
LOWD = LOW + b'0123456789'
TXT = bytes(x for x in range(0x21, 0x7f))
REPLAY_TIMEOUT_MS = 60000
META = dict(
    functions_encoded=['deb.Load', 'deb.loadDeb', 'deb.loadDeb2', 'deb.loadDeb2Control', 'deb.loadDeb2Data', '(*ArEntry).IsTarfile', '(*ArEntry).Tarfile', 'deb.DecompressorFor',
                       'gzipNewReader / xzNewReader / lzmaNewReader / bzipNewReader / zstdNewReader', 'the package initialiser (decoder table)', '(*Deb).Close', 'Control.SourceName',
                       'control.Unmarshal into deb.Control (reflect model)', 'the ar reader of C13', 'bufio.Reader', 'path.Clean', 'filepath.Ext'],
    stubs=['codecs: each decoder accepts exactly the tagged container of its own extension and fails on any other stream (engine/symgo/archmodel.py); archive/tar: an abstract entry list parsed when the reader is created, Read may return one short read; a gzip stream may consist of two members, of which a reader with Multistream(false) delivers the first only',
           'the harness helpers verifTar / verifCompress are real in native runs: archive/tar, gzip and zstd writers in Go, xz / lzma / bzip2 streams written by the tooling Python (lzma, bz2 modules) - the translator validation therefore runs the library with its real third-party decoders on all six encodings'],
    bounds={'quick': 'all 6 x 6 combinations of control/data encodings; ./control first, second or last in its tarball, named ./control or control; extra ar members: none, one between control and data, one behind the data member, or both; control paragraph with symbolic Package, Version, Architecture, Maintainer, Section, Depends, Description leaves (1-2 characters); two data files with symbolic names and contents; debian-binary 2.0 and four other values; gzip tarballs made of two gzip members; each required member (and the control file inside the tarball) missing in turn',
            'thorough': 'leaves up to 3 characters for every encoding pair'},
    outside_claim=['real gzip / bzip2 / xz / lzma / zstd decoding and real archive/tar parsing (tens of thousands of lines with tables, unsafe and assembly: uninterpreted), hence also interoperability with packages built by dpkg-deb',
                   ],
    assumptions=['codec contract: D_ext(container_ext(x)) = x, D_ext fails on other streams'])


def control_doc(L):
    d = c10.Doc(L)
    pkg, src = d.leaf(), d.leaf()
    up, rev = d.leaf(DIGITS, LOWD + b'.'), d.leaf(LOWD, LOWD)
    arch = b'amd64'
    maint = d.leaf(TXT, TXT) + tuple(b' <m@x>')
    sect, prio, home = d.leaf(), d.leaf(), d.leaf(TXT, TXT)
    dep_t, dep_d = d.dep([[c10.VERS], [c10.SIMPLE, c10.SIMPLE]])
    short, long_ = d.leaf(TXT, TXT), d.leaf(bytes(set(TXT) - set(b'.')), TXT)
    d.field(b'Package', pkg)
    d.field(b'Source', src)
    d.field(b'Version', up + tuple(b'-') + rev)
    d.field(b'Architecture', arch)
    d.field(b'Maintainer', maint)
    d.field(b'Installed-Size', b'12')
    d.field(b'Multi-Arch', b'same')
    d.field(b'Depends', dep_t)
    d.field(b'Section', sect)
    d.field(b'Priority', prio)
    d.field(b'Homepage', home)
    d.field(b'Description', short, [long_])
    exp = ()
    for k, v in ((b'Package', pkg), (b'Source', src), (b'Version', up + tuple(b'-') + rev), (b'Arch', tuple(b'gnu/linux/amd64')), (b'Maintainer', maint), (b'InstalledSize', tuple(b'12')),
                 (b'MultiArch', tuple(b'same')), (b'Depends', dep_t), (b'Section', sect), (b'Priority', prio), (b'Homepage', home), (b'Description', short + (10,) + long_), (b'SourceName()', src)):
        exp += tuple(k) + (61,) + tuple(v) + (0,)
    return d, Str(d.text()), Str(exp)


def jobs(tier):
    js = []
    k = 0
    for ce in EXTS:
        for de in EXTS:
            k += 1
            js.append(dict(name='load%s%s' % (ce.decode() or '.none', de.decode() or '.none'), kind='load', ce=ce, de=de, pos=k % 3, cname=[b'./control', b'control'][k % 2], extra=k % 4, L=1 if tier == 'quick' else 2))
    for pos, cname, extra, L in itertools.product((0, 1, 2), (b'./control', b'control'), (0, 1, 2, 3), (1, 2)):
        js.append(dict(name='layout_%d_%s_%d_L%d' % (pos, cname.decode().replace('/', '_'), extra, L), kind='load', ce=b'.gz', de=b'', pos=pos, cname=cname, extra=extra, L=L))
    for b_ in (b'2.1\n', b'3.0\n', b'1.0\n', b'2.0', b''):
        js.append(dict(name='binary_%s' % b_.strip().decode().replace('.', '_'), kind='load', ce=b'', de=b'.gz', pos=0, cname=b'./control', extra=0, L=1, binary=b_))
    # gzip tarballs written as two concatenated gzip members (legal per RFC 1952; pigz-style block compressors and
    # `cat a.gz b.gz` produce them), cut after 10 or 30 bytes
    for ce, de in ((b'.gz', b'.gz'), (b'.gz', b''), (b'', b'.gz')):
        for split in (10, 30):
            js.append(dict(name='gzsplit%s%s_%d' % (ce.decode() or '.none', de.decode() or '.none', split), kind='load', ce=ce, de=de, pos=1, cname=b'./control', extra=0, L=1, split=split))
    for drop in range(4):
        for ce in (b'', b'.gz', b'.zst', b'.xz'):
            js.append(dict(name='missing_%d%s' % (drop, ce.decode()), kind='missing', drop=drop, ce=ce))
    return js


def run_job(env, job):
    if job['kind'] == 'missing':
        return run_harness(env, PKG, 'VerifC14Missing', [job['drop'], job['ce']], [], unwind=400, sample='member %d missing, control encoding %r' % (job['drop'], job['ce'].decode()))
    d, ctl, exp = control_doc(job['L'])
    sym = d.sym
    f0n, f1n = Str(tuple(b'./usr/') + sym.leaf(1, LOW, LOWD)), Str(tuple(b'./etc/') + sym.leaf(2, LOW, LOWD))
    f0d, f1d = symstr('d0', 2), symstr('d1', 0)
    r = run_harness(env, PKG, 'VerifC14Load', [job['ce'], job['de'], job['pos'], job['cname'], ctl, exp, f0n, f0d, f1n, f1d, job['extra'], job.get('binary', b'2.0\n'), 0, job.get('split', 0)], sym.assume,
                       unwind=600, timeout_ms=300000,
                       sample=dict(control_encoding=job['ce'].decode(), data_encoding=job['de'].decode(), control_position=job['pos'], control_name=job['cname'].decode(), extra_member=job['extra'], debian_binary=job.get('binary', b'2.0\n').decode(), leaf_len=job['L']))
    gw = [g for g in r.get('global_writes', ()) if 'verif' not in g]
    if gw:
        # loading must not keep state in package-level variables: a second load (or a concurrent one) would
        # interfere with a Deb that is still being read.  Replayed natively by the same harness (two loads).
        r['cex'].append(dict(func='VerifC14Load', args=[job['ce'], job['de'], job['pos'], job['cname'], b'Package: p\nVersion: 1\nArchitecture: all\n',
                                                          b'Package=p\x00Source=\x00Version=1\x00Arch=all/all/all\x00Maintainer=\x00InstalledSize=0\x00MultiArch=\x00Depends=\x00Section=\x00Priority=\x00Homepage=\x00Description=\x00SourceName()=p\x00',
                                                          b'./usr/a', b'hi', b'./etc/bb', b'', job['extra'], b'2.0\n', 0, 0], kind='ret', code=10, msg='package-level variables written while loading: ' + ', '.join(gw)))
        r['status'] = 'viol'
    r['samples'][0]['package_level_stores'] = gw
    return r


def replay_args(c):
    a = list(c['args'])
    if c['func'] == 'VerifC14Load':
        if bytes(a[0]) == b'.gz' and a[2] >= 1:
            a[12] = 30720 if a[2] == 1 else 29696      # the tar body of ./control then starts at offset 32256
            a[4] = b'X-Pad: ' + b'p' * 900 + b'\n' + bytes(a[4])   # an unknown field in front: the known fields now run across the 32 KiB mark      # pad the file in front of ./control so that it straddles a gzip block: a real short read
    return a


def validation_calls(env, seed):
    ctl = b'Package: p\nSource: s\nVersion: 1.0-1\nArchitecture: amd64\nMaintainer: M <m@x>\nInstalled-Size: 12\nMulti-Arch: same\nDepends: a (>= 1), b | c\nSection: x\nPriority: y\nHomepage: h\nDescription: d\n more\n'
    exp = b'Package=p\x00Source=s\x00Version=1.0-1\x00Arch=gnu/linux/amd64\x00Maintainer=M <m@x>\x00InstalledSize=12\x00MultiArch=same\x00Depends=a (>= 1), b | c\x00Section=x\x00Priority=y\x00Homepage=h\x00Description=d\nmore\x00SourceName()=s\x00'
    calls = []
    for ce, de, pos, cn, extra in ((b'', b'', 0, b'./control', 0), (b'.gz', b'.zst', 1, b'control', 1), (b'.zst', b'.gz', 2, b'./control', 2), (b'', b'.gz', 0, b'control', 3),
                                   (b'.xz', b'.bz2', 1, b'./control', 0), (b'.lzma', b'.xz', 0, b'control', 2), (b'.bz2', b'.lzma', 2, b'./control', 1)):
        calls.append(('VerifC14Load', [ce, de, pos, cn, ctl, exp, b'./usr/x', b'hi', b'./etc/yy', b'', extra, b'2.0\n', 0, 0]))
    calls.append(('VerifC14Load', [b'', b'', 0, b'./control', ctl, exp, b'./usr/x', b'hi', b'./etc/yy', b'', 0, b'3.0\n', 0, 0]))
    for ce, de, split in ((b'.gz', b'.gz', 10), (b'.gz', b'', 30), (b'', b'.gz', 1024)):
        calls.append(('VerifC14Load', [ce, de, 1, b'./control', ctl, exp, b'./usr/x', b'hi', b'./etc/yy', b'', 0, b'2.0\n', 0, split]))
    for drop in range(4):
        calls.append(('VerifC14Missing', [drop, b'.gz']))
    return calls


if __name__ == '__main__':
    runner.main(sys.modules[__name__])
