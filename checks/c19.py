#!/usr/bin/env python3
# C19 - build ordering respects build-dependencies between the given sources.
import os, sys, random, itertools
sys.path.insert(0, os.path.dirname(os.path.abspath(__file__)))
from common import *
import c04, c10

ID = 'C19'
PKG = 'control'
C = MOD + '/control.'
ROOTS = [C + 'VerifC19Order']
LOW = b'abcdefghijklmnopqrstuvwxyz'
LOWD = LOW + b'0123456789'
FIRST = [b'abcde', b'fghij', b'klmno', b'pqrst']
META = dict(
    functions_encoded=['control.OrderDSCForBuild', 'control.ParseDsc (composition: the .dsc text is parsed first)', '(*Dependency).GetPossibilities', '(*ArchSet).Matches', '(*Arch).Is',
                       'topsort.NewNetwork/AddNode/AddEdge/Sort/sortNodes/sortSingleNodes (from SSA)', 'control.Unmarshal over DSC (reflect model)'],
    stubs=['reflect model', 'strings models'],
    bounds={'quick': 'every build-dependency graph on 3 sources (all 64 edge sets, cyclic or not, plus 19 of them with a self-dependency added), each source with 2 binaries listed as "Binary: a, b" or folded after the comma; edges also carried by a qualified name (b:native, b:any); each edge carried in turn by Build-Depends, Build-Depends-Arch or Build-Depends-Indep, plain / with an applicable [amd64] list / as the second alternative behind a non-applicable one / behind a substvar; decoys that must be ignored: unknown names, substvars, later alternatives, alternatives restricted to other architectures; source and binary names with symbolic characters',
            'thorough': 'every graph on 4 sources whose edge set has at most 5 edges (a sample of the larger ones), and 3 sources with 2-character symbolic names'},
    outside_claim=['more than 4 sources', 'two sources building the same binary (assumed away)'],
    assumptions=['the build architecture is amd64'])


def has_cycle(n, edges):
    reach = [[(i, j) in edges for j in range(n)] for i in range(n)]
    for k in range(n):
        for i in range(n):
            for j in range(n):
                reach[i][j] = reach[i][j] or (reach[i][k] and reach[k][j])
    return any(reach[i][i] for i in range(n))


def graphs(n, tier):
    pairs = [(i, j) for i in range(n) for j in range(n) if i != j]
    out = []
    k = 0
    for r in range(len(pairs) + 1):
        for es in itertools.combinations(pairs, r):
            if n == 4 and (r > 5 or (r > 2 and hash(es) % 7)):
                continue
            out.append(es)
            # a source that build-depends on one of its own binaries is a cycle of length one
            k += 1
            if n == 3 and (k % 4 == 0 or r == 0):
                out.append(es + ((k % 3, k % 3),))
    return out


def jobs(tier):
    js = []
    for gi, es in enumerate(graphs(3, tier)):
        for var in range(3 if tier == 'thorough' else 2):
            js.append(dict(name='g3_%d_v%d' % (gi, var), n=3, edges=es, var=var, L=1))
    if tier == 'thorough':
        for gi, es in enumerate(graphs(4, tier)):
            js.append(dict(name='g4_%d' % gi, n=4, edges=es, var=gi % 3, L=1))
        for gi, es in enumerate(graphs(3, tier)):
            if gi % 4 == 0:
                js.append(dict(name='g3_%d_L2' % gi, n=3, edges=es, var=gi % 3, L=2))
    return js


def run_job(env, job):
    n, es, var = job['n'], job['edges'], job['var']
    sym = c04.Sym()
    L = job['L']
    srcs = [sym.leaf(L, FIRST[i], LOWD) + tuple(b'-src') for i in range(n)]
    bins = [[sym.leaf(L, FIRST[i], LOWD) + tuple(b'-b%d' % k) for k in range(2)] for i in range(n)]
    unknown = tuple(b'zz-unknown')
    docs = []
    for j in range(n):
        d = c10.Doc(1)
        d.sym = sym
        fields = {b'Build-Depends': [], b'Build-Depends-Arch': [], b'Build-Depends-Indep': []}
        keys = list(fields)
        # decoys first (variant 1 keeps Build-Depends free of them, so that field is absent unless it carries an edge)
        dk = b'Build-Depends' if var != 1 else b'Build-Depends-Indep'
        fields[dk].append(unknown + tuple(b' (>= 1)'))
        fields[dk].append(tuple(b'${misc:Depends}'))
        others = [i for i in range(n) if i != j and (i, j) not in es]
        if others:
            o = others[0]
            # a later alternative, alternatives for other architectures only, a negated list that names the build
            # architecture among others: none of them creates an edge
            fields[b'Build-Depends-Indep'].append(unknown + tuple(b' | ') + bins[o][0])
            fields[b'Build-Depends-Arch'].append(bins[o][1] + tuple(b' [i386] | ') + unknown)
            fields[dk].append(bins[o][0] + tuple(b' [!amd64]'))
            fields[b'Build-Depends-Arch'].append(bins[o][0] + tuple(b' [!i386 !amd64] | ') + unknown)
        for e_idx, (i, jj) in enumerate(es):
            if jj != j:
                continue
            b = bins[i][(e_idx + var) % 2]
            carrier = keys[(e_idx + var) % 3]
            style = (e_idx + 2 * var + jj) % 6
            if style == 4:
                txt = b + tuple(b':native')          # a multiarch qualifier does not take the edge away
            elif style == 5:
                txt = b + tuple(b':any (>= 1) [amd64]')
            elif style == 0:
                txt = b
            elif style == 1:
                txt = b + tuple(b' (>= 2) [amd64 i386]')
            elif style == 2:
                txt = unknown + tuple(b' [!amd64] | ') + b + tuple(b' | ') + unknown
            else:
                txt = tuple(b'${local:Depends} | ') + b
            fields[carrier].append(txt)
        d.field(b'Format', b'3.0 (quilt)')
        d.field(b'Source', srcs[j])
        if (j + var) % 2:
            d.field(b'Binary', bins[j][0] + tuple(b','), [bins[j][1]])      # folded after the comma, as dpkg-source writes long lists
        else:
            d.field(b'Binary', c10.J(bins[j], b', '))
        d.field(b'Architecture', b'any')
        d.field(b'Version', b'1.0-1')
        d.field(b'Maintainer', b'M <m@x>')
        for k in keys:
            if fields[k]:
                d.field(k, c10.J(fields[k], b', '))
        d.field(b'Files', (), [tuple(b'aa 1 x_1.0-1.debian.tar.xz')])
        docs.append(Str(d.text()))
    while len(docs) < 4:
        docs.append(Str())
    mask = 0
    for i, j in es:
        mask |= 1 << (4 * i + j)
    cyc = has_cycle(n, set(es))
    return run_harness(env, PKG, 'VerifC19Order', [n] + docs + [mask, cyc], sym.assume, unwind=400, timeout_ms=300000,
                       sample=dict(sources=n, edges=[list(e) for e in es], cyclic=cyc, carrier_variant=var))


def validation_calls(env, seed):
    def doc(src, bins, bd):
        return b'Format: 1.0\nSource: %s\nBinary: %s\nArchitecture: any\nVersion: 1-1\nMaintainer: M <m@x>\n%sFiles:\n aa 1 x.debian.tar.xz\n' % (src, bins, (b'Build-Depends: ' + bd + b'\n') if bd else b'')
    a, b, c = doc(b'sa', b'a1, a2', b'b2'), doc(b'sb', b'b1, b2', b''), doc(b'sc', b'c1, c2', b'a2 | zz, b1 [i386]')
    calls = [('VerifC19Order', [3, a, b, c, b'', (1 << (4 * 1 + 0)) | (1 << (4 * 0 + 2)), False]),
             ('VerifC19Order', [2, doc(b'sa', b'a1, a2', b'b2'), doc(b'sb', b'b1, b2', b'a2'), b'', b'', (1 << 4) | (1 << 1), True])]
    return calls


if __name__ == '__main__':
    runner.main(sys.modules[__name__])
