#!/usr/bin/env python3
# C09 - struct marshal/unmarshal round-trips and passes unknown fields through.
import os, sys, random, itertools
sys.path.insert(0, os.path.dirname(os.path.abspath(__file__)))
from common import *

ID = 'C09'
PKG = 'control'
C = MOD + '/control.'
ROOTS = [C + n for n in ('VerifC09Scalars', 'VerifC09Required', 'VerifC09Lists', 'VerifC09Nested', 'VerifC09Ptr', 'VerifC09Embedded')]
VIS = bytes(range(0x21, 0x7f))
PRN = bytes(range(0x20, 0x7f))
ELEM = bytes(x for x in range(0x21, 0x7f) if x not in b',')
LOW = b'abcdefghijklmnopqrstuvwxyz0123456789'
META = dict(
    functions_encoded=['control.Marshal', 'control.NewEncoder', '(*Encoder).Encode/encode/encodeStruct', 'control.convertToParagraph', 'control.marshalStructValue',
                       'marshalStructValueStruct', 'marshalStructValueSlice', '(*Paragraph).Update/WriteTo', 'control.Unmarshal', 'control.decode', 'decodeStruct',
                       'decodeStructValue', 'decodeStructValueStruct', 'decodeStructValueSlice', 'the reader', 'version/dependency marshallers through interface calls'],
    stubs=['reflect (model over the interpreter heap)', 'strconv.Itoa (decimal digits as fresh variables tied to the value by a linear constraint)', 'strings.Split/Join/Trim', 'fmt.Sprintf/Errorf'],
    bounds={'quick': 'probe structs covering string, int, uint, bool, renamed, required, skipped, multi-line, three list flavours (default, ", " and newline delimited), nested version / dependency / architecture / architecture list, pointer field, embedded Paragraph; string leaves 0-2 symbolic printable characters without outer blanks; int in [-999, 999] and uint in [0, 999] symbolic plus the concrete boundaries (min/max int64, max uint64, 10^18, 10^19); bool symbolic; lists of 0-3 elements of 1-2 characters free of their delimiter, and with an empty middle element',
            'thorough': 'string leaves up to 3 characters'},
    outside_claim=['kinds the library does not claim (floats, maps, pointer fields on decode)', 'values outside the stated leaf domain (outer blanks, delimiter inside a list element)'],
    assumptions=[])


def text_leaf(name, n, assume, inner=PRN):
    s = symstr(name, n)
    for i, c in enumerate(s):
        assume.append(in_set(c, VIS if i in (0, n - 1) else inner))
    return s


def jobs(tier):
    L = 2 if tier == 'quick' else 3
    js = []
    for ls in itertools.product(range(0, L + 1), repeat=2):
        for multi in ('none', 'one', 'two'):
            js.append(dict(name='scalars_%d%d_%s' % (ls + (multi,)), kind='scalars', ls=ls, multi=multi))
    for k, rng in enumerate([(2**63 - 1, 2**64 - 1), (-2**63, 2**63), (-1, 0), (10**18, 10**19), (-10**18, 18446744073709551615)]):
        js.append(dict(name='scalars_bound_%d' % k, kind='scalars', ls=(1, 0), multi='none', range=rng))
    js.append(dict(name='required', kind='required'))
    for nw, nc, nl in itertools.product(range(0, 4), repeat=3):
        if tier == 'quick' and (nw + nc + nl) % 2 and nw * nc * nl:
            continue
        js.append(dict(name='lists_%d%d%d' % (nw, nc, nl), kind='lists', n=(nw, nc, nl)))
        if nw == 3 and nc == 3:
            js.append(dict(name='lists_%d%d%d_empty' % (nw, nc, nl), kind='lists', n=(nw, nc, nl), empty_middle=True))
    for na in (0, 1, 2):
        for dep in ('name', 'name_ver', 'two', 'subst'):
            js.append(dict(name='nested_%d_%s' % (na, dep), kind='nested', na=na, dep=dep))
    js.append(dict(name='ptr', kind='ptr'))
    for ls in itertools.product((0, 1, 2), repeat=3):
        js.append(dict(name='embedded_%d%d%d' % ls, kind='embedded', ls=ls))
    return js


def run_job(env, job):
    k = job['kind']
    assume = []
    if k == 'scalars':
        l1, l2 = job['ls']
        s = text_leaf('s', l1, assume)
        ren = text_leaf('ren', l2, assume)
        req = text_leaf('req', l1, assume)
        skip = text_leaf('skip', 1, assume)
        if job['multi'] == 'none':
            multi = Str()
        elif job['multi'] == 'one':
            multi = text_leaf('m', 2, assume)
        else:
            multi = Str(tuple(text_leaf('m1', 1, assume)) + (10,) + tuple(text_leaf('m2', 2, assume)))
            assume.append(multi[0] != ord('.'))   # a line that is exactly "." cannot be represented in deb822
        i = z3.BitVec('i', 64)
        u = z3.BitVec('u', 64)
        b = z3.Bool('b')
        rng = job.get('range', 'small')
        if rng == 'small':
            assume += [i >= -999, i <= 999, z3.ULE(u, 999)]
        else:
            i, u = rng
        return run_harness(env, PKG, 'VerifC09Scalars', [s, i, u, b, ren, req, skip, multi], assume, unwind=200, unsigned=(2,), timeout_ms=300000,
                           sample='scalar probe: string lengths %r, ints %s, multi-line %s' % (job['ls'], job.get('range', 'symbolic in [-999,999] / [0,999]'), job['multi']))
    if k == 'required':
        rs = []
        for name in (b'Req', b'Str', b'Int'):
            val = text_leaf('v', 1, assume) if name != b'Int' else mkstr('7')
            rs.append(run_harness(env, PKG, 'VerifC09Required', [name, val], assume, unwind=200, sample='a document holding only the field %s' % name.decode()))
        return merge_results(rs)
    if k == 'lists':
        nw, nc, nl = job['n']
        args = [nw, nc, nl]
        for pre, n_, alph in (('w', nw, VIS), ('c', nc, ELEM), ('l', nl, bytes(set(VIS) - set(b'.')))):
            for j in range(3):
                ln = (1 + (j % 2)) if j < n_ else 0
                if job.get('empty_middle') and j == 1 and pre in ('w', 'c'):
                    ln = 0      # an empty element between two others ("a, , b")
                s = symstr('%s%d' % (pre, j), ln)
                for c in s:
                    assume.append(in_set(c, alph))
                args.append(s)
        return run_harness(env, PKG, 'VerifC09Lists', args, assume, unwind=200, sample='lists with %d/%d/%d elements' % (nw, nc, nl))
    if k == 'nested':
        ver = Str(tuple(symstr('v', 1)) + tuple(b'.') + tuple(symstr('w', 1)))
        assume += [in_set(ver[0], DIGITS), in_set(ver[2], LOW)]
        nm = symstr('n', 2)
        assume += [in_set(nm[0], LOW), in_set(nm[1], LOW + b'+.-')]
        if job['dep'] == 'name':
            dep = nm
        elif job['dep'] == 'name_ver':
            dep = Str(tuple(nm) + tuple(b' (>= ') + tuple(ver) + tuple(b')'))
        elif job['dep'] == 'two':
            dep = Str(tuple(nm) + tuple(b', ') + tuple(nm) + tuple(b' | x'))
        else:
            dep = Str(tuple(b'${') + tuple(nm) + tuple(b'}'))
        arch = symstr('a', 2)
        assume += [in_set(c, LOW) for c in arch]
        a0 = mkstr('linux-any')
        a1 = symstr('b', 1)
        assume += [in_set(c, LOW) for c in a1]
        return run_harness(env, PKG, 'VerifC09Nested', [ver, dep, arch, job['na'], a0, a1], assume, unwind=200, sample='nested probe: dependency shape %s, %d list architectures' % (job['dep'], job['na']))
    if k == 'ptr':
        rs = []
        for isnil in (True, False):
            nm = text_leaf('n', 1, assume)
            rs.append(run_harness(env, PKG, 'VerifC09Ptr', [nm, isnil, mkstr('1.0-1')], assume, unwind=200, sample='pointer field, nil=%s' % isnil))
        return merge_results(rs)
    l1, l2, l3 = job['ls']
    xa, known, xb, other, newk, newo = text_leaf('xa', 1, assume), text_leaf('k', max(l1, 1), assume), text_leaf('xb', 2, assume), text_leaf('o', 1, assume), text_leaf('nk', l2, assume), text_leaf('no', l3, assume)
    return run_harness(env, PKG, 'VerifC09Embedded', [xa, known, xb, other, newk, newo], assume, unwind=200, sample='embedded paragraph: known field of length %d replaced by one of length %d, renamed field replaced by one of length %d' % (max(l1, 1), l2, l3))


def validation_calls(env, seed):
    rnd = random.Random(seed)
    calls = [('VerifC09Scalars', [b'a', 5, 7, True, b'r', b'q', b's', b'm']), ('VerifC09Scalars', [b'', -3, 0, False, b'', b'', b'', b'x\ny']),
             ('VerifC09Scalars', [b'a b', 2**63 - 1, 2**64 - 1, True, b'', b'q', b'', b'']), ('VerifC09Scalars', [b'a', -2**63, 1, False, b'x', b'', b'', b''])]
    calls += [('VerifC09Required', [b'Req', b'v']), ('VerifC09Required', [b'Str', b'v'])]
    calls += [('VerifC09Lists', [2, 1, 3, b'a', b'bb', b'', b'c', b'', b'', b'x', b'y', b'z']), ('VerifC09Lists', [0, 0, 0, b'', b'', b'', b'', b'', b'', b'', b'', b''])]
    calls += [('VerifC09Nested', [b'1.0', b'foo (>= 1.0), bar | ${x}', b'amd64', 2, b'linux-any', b'all'])]
    calls += [('VerifC09Ptr', [b'n', True, b'1']), ('VerifC09Ptr', [b'n', False, b'1:2-3'])]
    calls += [('VerifC09Embedded', [b'1', b'k', b'2', b'o', b'n', b'p']), ('VerifC09Embedded', [b'1', b'k', b'2', b'o', b'', b''])]
    return calls


if __name__ == '__main__':
    runner.main(sys.modules[__name__])
