#!/usr/bin/env python3
# C04 - dependency fields parse into exactly the structure they denote.
# The driver builds a symbolic AST, renders it itself (independent renderer following Policy 7.1 and the
# whitespace dpkg / Dpkg::Deps accept) and the real parser must return exactly that AST.
import os, sys, random, itertools
sys.path.insert(0, os.path.dirname(os.path.abspath(__file__)))
from common import *

ID = 'C04'
PKG = 'dependency'
D = MOD + '/dependency.'
ROOTS = [D + 'VerifC04Accept', D + 'VerifC04Reject']
LOW = b'abcdefghijklmnopqrstuvwxyz0123456789'
NAMEC = LOW + b'+.-'
VERC = b'0123456789abcdefghijklmnopqrstuvwxyz.+~:-'
WSC = b' \t\n'
META = dict(
    functions_encoded=['dependency.Parse', '(*Dependency).UnmarshalControl', 'parseDependency', 'parseRelation', 'parsePossibility', 'parseSubstvar',
                       'parseMultiarch', 'parsePossibilityControllers', 'parsePossibilityVersion', 'parsePossibilityOperator', 'parsePossibilityNumber',
                       'parsePossibilityArchs', 'parsePossibilityArch', 'parsePossibilityStageSet', 'parsePossibilityStage', 'ParseArch', 'parseArchInto'],
    stubs=['strings.SplitN (position case split)', 'fmt.Errorf / errors.New (opaque non-nil error)'],
    bounds={'quick': 'one alternative with every subset and order of {version, arch list of 1-2 names (negated or not), 1-2 profile groups of 1-2 entries}, optional :qualifier, or a substvar; 1-2 relations x 1-2 alternatives of simple shapes; leaves 1-2 symbolic characters over the Policy alphabets; leaves of 2 characters in the conventional layout only (quick); whitespace: conventional, minimal, the same symbolic byte from {space,tab,newline} in every slot, and two independent symbolic bytes in each slot in turn (every 7th shape)',
            'thorough': 'same shapes with leaves of 1-3 symbolic characters and two symbolic whitespace bytes in every slot in turn for every shape'},
    outside_claim=['larger shapes', 'non-ASCII leaves', 'a name directly followed by [ or < without whitespace (not demanded)'],
    assumptions=['the denotation of an architecture name is the triple ParseArch documents: x -> gnu-linux-x, os-cpu -> any-os-cpu, any/all -> itself'])


class Sym:
    """builds symbolic leaves and collects their domain assumptions"""

    def __init__(self):
        self.n = 0
        self.assume = []

    def leaf(self, n, first, rest):
        self.n += 1
        s = symstr('l%d' % self.n, n)
        for i, c in enumerate(s):
            self.assume.append(in_set(c, first if i == 0 else rest))
        return tuple(s)

    def arch_leaf(self, n, first, rest):
        """a symbolic architecture name that is a plain cpu name: the words any and all denote something else"""
        s = self.leaf(n, first, rest)
        if n == 3:
            for w in (b'any', b'all'):
                self.assume.append(z3.Not(z3.And(*[tobv(c, 8) == w[i] for i, c in enumerate(s)])))
        return s

    def ws(self, n):
        self.n += 1
        s = symstr('w%d' % self.n, n)
        for c in s:
            self.assume.append(in_set(c, WSC))
        return tuple(s)

    def op2(self, kind='e'):
        """a two-character operator: kind 'e': (a, '=') ; kind 'd': (a, a) ; a symbolic over {<, >}"""
        self.n += 1
        a = symstr('o%d' % self.n, 1)[0]
        self.assume.append(in_set(a, b'<>'))
        return (a, ord('=')) if kind == 'e' else (a, a)


def B(x):
    return tuple(x) if isinstance(x, (bytes, bytearray)) else tuple(x)


def arch_triple(name):
    """denotation of an architecture name given as concrete bytes or as a symbolic leaf (never any/all, no hyphen)"""
    if isinstance(name, (bytes, bytearray)):
        parts = bytes(name).split(b'-', 2)
        if len(parts) == 1:
            if parts[0] in (b'any', b'all'):
                return (B(parts[0]),) * 3
            return (B(b'gnu'), B(b'linux'), B(parts[0]))
        if len(parts) == 2:
            return (B(b'any'), B(parts[0]), B(parts[1]))
        return tuple(B(p) for p in parts)
    return (B(b'gnu'), B(b'linux'), tuple(name))


def dump_arch(t):
    return t[0] + (0,) + t[1] + (0,) + t[2] + (0,)


class Slots:
    """whitespace policy: mode in conv|min|sym1, plus an optional slot index that gets two symbolic bytes"""

    def __init__(self, sym, mode, double=None):
        self.sym = sym
        self.mode = mode
        self.double = double
        self.k = 0

    def get(self, conventional, mandatory=False):
        i = self.k
        self.k += 1
        if self.double is not None and i == self.double:
            return self.sym.ws(2)
        if self.mode == 'same1':
            if not hasattr(self, 'shared'):
                self.shared = self.sym.ws(1)
            return self.shared
        if self.mode == 'min':
            return B(b' ') if mandatory else ()
        return B(conventional)


def render_alt(alt, sym, sl):
    """returns (text, dump) as tuples of byte terms"""
    if alt['kind'] == 'subst':
        name = alt['name']
        return B(b'${') + name + B(b'}'), B(b'P') + name + (0,) + B(b'$avsg')
    text = tuple(alt['name'])
    dump = B(b'P') + tuple(alt['name']) + (0,) + B(b'-')
    if alt.get('qual') is not None:
        q = alt['qual']
        text += B(b':') + tuple(q)
        dump += B(b'A') + dump_arch(arch_triple(q))
    else:
        dump += B(b'a')
    dv, da, dp = B(b'v'), B(b's'), ()
    for cl in alt['clauses']:
        if cl[0] == 'ver':
            _, op, ver = cl
            text += sl.get(b' ') + B(b'(') + sl.get(b'') + tuple(op) + sl.get(b' ') + tuple(ver) + sl.get(b'') + B(b')')
            dv = B(b'V') + tuple(op) + (0,) + tuple(ver) + (0,)
        elif cl[0] == 'arch':
            _, neg, names = cl
            text += sl.get(b' ', True) + B(b'[') + sl.get(b'')
            da = B(b'S!') if neg else B(b'S+')
            for i, nm in enumerate(names):
                if i:
                    text += sl.get(b' ', True)
                text += (B(b'!') if neg else ()) + tuple(nm)
                da += dump_arch(arch_triple(nm)) + B(b';')
            text += sl.get(b'') + B(b']')
        else:
            _, entries = cl
            text += sl.get(b' ', True) + B(b'<') + sl.get(b'')
            dp += B(b'G')
            for i, (neg, nm) in enumerate(entries):
                if i:
                    text += sl.get(b' ', True)
                text += (B(b'!') if neg else ()) + tuple(nm)
                dp += (B(b'!') if neg else B(b'+')) + tuple(nm) + (0,)
            text += sl.get(b'') + B(b'>')
    return text, dump + dv + da + dp + B(b'g')


def render_dep(rels, sym, mode, double=None):
    sl = Slots(sym, mode, double)
    text = sl.get(b'')
    dump = ()
    for ri, rel in enumerate(rels):
        if ri:
            text += sl.get(b'') + B(b',') + sl.get(b' ')
        dump += B(b'R')
        for ai, alt in enumerate(rel):
            if ai:
                text += sl.get(b' ') + B(b'|') + sl.get(b' ')
            t, d = render_alt(alt, sym, sl)
            text += t
            dump += d
    text += sl.get(b'')
    return text, dump, sl.k


HIGH = bytes(range(0x80, 0x100))


def mk_alt(sym, spec, L, hi=None):
    """spec: dict(kind, qual, order=[...], op, narch, neg, profs); hi names the leaf kind drawn from bytes >= 0x80"""
    def alph(kind, first, rest):
        return (HIGH, HIGH) if hi == kind else (first, rest)
    if spec['kind'] == 'subst':
        return dict(kind='subst', name=sym.leaf(spec.get('n', L), *alph('subst', LOW + b'ABCDEFGHIJKLMNOPQRSTUVWXYZ', LOW + b'ABCDEFGHIJKLMNOPQRSTUVWXYZ:-')))
    alt = dict(kind='pkg', name=sym.leaf(spec.get('n', L), *alph('name', LOW, NAMEC)), clauses=[])
    q = spec.get('qual')
    if q == 'sym':
        alt['qual'] = sym.arch_leaf(L, *alph('qual', LOW, LOW))
    elif q:
        alt['qual'] = q
    for c in spec.get('order', ()):
        if c == 'ver':
            op = B(b'=') if spec.get('op', 'e') == '=' else sym.op2(spec.get('op', 'e'))
            alt['clauses'].append(('ver', op, tuple(spec['ver_text']) if spec.get('ver_text') else sym.leaf(L, *alph('ver', DIGITS, VERC))))
        elif c == 'arch':
            names = spec['archs']
            alt['clauses'].append(('arch', spec.get('neg', False), [sym.arch_leaf(L, *alph('arch', LOW, LOW)) if n == 'sym' else n for n in names]))
        else:
            ents = spec['profs'][int(c[1:])]
            alt['clauses'].append(('prof', [(neg, sym.leaf(L, *alph('prof', LOW, LOW + b'.+-'))) for neg in ents]))
    return alt


def single_specs():
    out = []
    archv = [dict(archs=['sym'], neg=False), dict(archs=['sym'], neg=True), dict(archs=['sym', 'sym'], neg=False), dict(archs=['sym', 'sym'], neg=True),
             dict(archs=[b'any'], neg=False), dict(archs=[b'linux-any', 'sym'], neg=True), dict(archs=[b'kfreebsd-amd64'], neg=False), dict(archs=[b'all', b'gnu-linux-amd64'], neg=False)]
    profv = [[[False]], [[True]], [[False, True]], [[False], [True, False]]]
    k = 0
    for qual in (None, 'sym', b'any'):
        for sub in itertools.product((0, 1), (0, 1), (0, 1, 2, 3, 4)):
            hv, ha, pi = sub
            kinds = (['ver'] if hv else []) + (['arch'] if ha else [])
            profs = profv[pi - 1] if pi else []
            kinds += ['p%d' % i for i in range(len(profs))]
            orders = set(itertools.permutations(kinds))
            # profile groups keep their relative order (they are a sequence), other clauses move freely
            orders = [o for o in orders if [x for x in o if x[0] == 'p'] == ['p%d' % i for i in range(len(profs))]]
            for o in sorted(orders):
                for op in (('e', 'd', '=') if hv else ('e',)):
                    av = archv[k % len(archv)] if ha else {}
                    k += 1
                    out.append(dict(kind='pkg', qual=qual, order=list(o), op=op, profs=profs, **av))
    for n in (1, 2, 3):
        out.append(dict(kind='subst', n=n))
    return out


def multi_specs():
    simple = [dict(kind='pkg', order=[]), dict(kind='pkg', order=['ver']), dict(kind='subst', n=1), dict(kind='pkg', qual=b'any', order=['arch'], archs=['sym']),
              dict(kind='pkg', qual='sym', order=[]), dict(kind='pkg', qual=b'any', order=[])]
    out = []
    for shape in ((1, 1), (2,), (2, 1), (1, 2), (2, 2)):
        n = sum(shape)
        for combo in itertools.product(range(len(simple)), repeat=n):
            if n >= 3 and sum(combo) % 4:      # thin out the larger products deterministically
                continue
            it = iter(combo)
            out.append([[simple[next(it)] for _ in range(k)] for k in shape])
    return out


def templates(tier):
    L = 2 if tier == 'quick' else 3
    ts = []
    for si, spec in enumerate(single_specs()):
        for mode in ('conv', 'min', 'same1'):
            for Lx in range(1, L + 1):
                if tier == 'quick' and Lx > 1 and mode != 'conv':
                    continue
                ts.append(dict(rels=[[spec]], mode=mode, double=None, L=Lx))
        nslots = 4 + 4 * len(spec.get('order', ()))
        if tier == 'thorough' or si % 7 == 0:
            for dbl in range(nslots):
                ts.append(dict(rels=[[spec]], mode='conv', double=dbl, L=1))
    for rels in multi_specs():
        for mode in ('conv', 'min', 'same1'):
            ts.append(dict(rels=rels, mode=mode, double=None, L=1))
    return ts


REJECTS = ['unterminated', 'mixed_neg', 'second_clause', 'unknown_op', 'two_names']


def jobs(tier):
    ts = templates(tier)
    chunk = 40
    js = [dict(name='accept_%d' % i, kind='accept', lo=i, hi=min(i + chunk, len(ts))) for i in range(0, len(ts), chunk)]
    js += [dict(name='reject_' + r, kind='reject', cl=r) for r in REJECTS]
    return js


def run_accept(env, t):
    sym = Sym()
    rels = [[mk_alt(sym, spec, t['L']) for spec in rel] for rel in t['rels']]
    text, dump, nslots = render_dep(rels, sym, t['mode'], t['double'])
    if t['double'] is not None and t['double'] >= nslots:
        return None
    return run_harness(env, PKG, 'VerifC04Accept', [Str(text), Str(dump)], sym.assume, unwind=len(text) + 24,
                       sample=dict(shape=[[dict((k, (v.decode() if isinstance(v, bytes) else v)) for k, v in spec.items() if k in ('kind', 'qual', 'order', 'op', 'neg')) for spec in rel] for rel in t['rels']], whitespace=t['mode'], double_slot=t['double'], leaf_len=t['L']))


def run_job(env, job):
    if job['kind'] == 'accept':
        ts = templates(env.tier)[job['lo']:job['hi']]
        rs = [r for r in (run_accept(env, t) for t in ts) if r is not None]
        return merge_results(rs)
    cl = job['cl']
    res = []

    def rej(parts, sym, sample):
        s = Str(sum((tuple(p) for p in parts), ()))
        res.append(run_harness(env, PKG, 'VerifC04Reject', [s], sym.assume, unwind=len(s) + 24, sample='%s: %s' % (cl, sample)))
    for L in (1, 2):
        for w in (b' ', None):
            sym = Sym()
            sp = B(w) if w else sym.ws(1)
            nm, x, y, v = sym.leaf(L, LOW, NAMEC), sym.leaf(L, LOW, LOW), sym.leaf(L, LOW, LOW), sym.leaf(L, DIGITS, VERC)
            if cl == 'unterminated':
                rej([nm, sp, b'[', x], sym, 'name [arch')
                rej([nm, sp, b'[', x, sp, y], sym, 'name [arch arch')
                rej([nm, sp, b'(', sym.op2(), sp, v], sym, 'name (op ver')
                rej([nm, sp, b'(', sym.op2()], sym, 'name (op')
                rej([nm, sp, b'('], sym, 'name (')
                rej([b'${', x], sym, '${name')
                rej([nm, b',', sp, b'${', x], sym, 'name, ${name')
                rej([nm, sp, b'<', x], sym, 'name <profile')
                rej([nm, sp, b'<', x, sp, b'!', y], sym, 'name <profile !profile')
                rej([nm, sp, b'[', x, b']', sp, b'<', y], sym, 'name [arch] <profile')
            elif cl == 'mixed_neg':
                rej([nm, sp, b'[!', x, sp, y, b']'], sym, 'name [!a b]')
                rej([nm, sp, b'[', x, sp, b'!', y, b']'], sym, 'name [a !b]')
                rej([nm, sp, b'[', x, sp, y, sp, b'!', x, b']'], sym, 'name [a b !a]')
            elif cl == 'second_clause':
                rej([nm, sp, b'(', sym.op2(), sp, v, b')', sp, b'(', sym.op2(), sp, v, b')'], sym, 'name (op v) (op v)')
                rej([nm, sp, b'(= ', v, b')', sp, b'[', x, b']', sp, b'(', sym.op2(), sp, v, b')'], sym, 'name (= v) [a] (op v)')
                rej([nm, sp, b'[', x, b']', sp, b'[', y, b']'], sym, 'name [a] [b]')
                rej([nm, sp, b'[', x, b']', sp, b'<', y, b'>', sp, b'[!', y, b']'], sym, 'name [a] <p> [!b]')
            elif cl == 'unknown_op':
                o = sym.leaf(2, b'<>=!~', b'<>=!~')
                a, b_ = o
                legal = z3.Or(z3.And(a == ord('>'), b_ == ord('=')), z3.And(a == ord('<'), b_ == ord('=')), z3.And(a == ord('<'), b_ == ord('<')), z3.And(a == ord('>'), b_ == ord('>')))
                # "=x" is the operator "=" followed by a version starting with x unless x is itself an operator character
                eqver = z3.And(a == ord('='), z3.Not(in_set(b_, b'<>=')))
                sym.assume += [z3.Not(legal), z3.Not(eqver)]
                rej([nm, sp, b'(', o, sp, v, b')'], sym, 'name (XY v) with XY not one of << <= = >= >>')
                rej([nm, sp, b'(', o, v, b')'], sym, 'name (XYv)')
            elif cl == 'two_names':
                rej([nm, sp, x], sym, 'name name')
                rej([nm, sp, x, b',', sp, y], sym, 'name name, name')
                rej([nm, b',', sp, x, sp, y], sym, 'name, name name')
    return merge_results(res)


def validation_calls(env, seed):
    calls = []
    sym = Sym()
    for s, d in [(b'foo', b'Pfoo\x00-avsg'), (b'foo (>= 1.0)', b'Pfoo\x00-aV>=\x001.0\x00sg'), (b'a, b | ${c}', b'')]:
        calls.append(('VerifC04Accept', [s, b'R' + d]))
    for s in [b'foo [a', b'foo (>= 1', b'${ab', b'foo [!a b]', b'foo (== 1)', b'foo bar', b'foo (>= 1) (<< 2)', b'foo', b'foo [a ]', b'foo\t(= 1)']:
        calls.append(('VerifC04Reject', [s]))
    return calls


if __name__ == '__main__':
    runner.main(sys.modules[__name__])
