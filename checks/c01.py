#!/usr/bin/env python3
# C01 - version comparison orders versions exactly as dpkg does.
import os, sys, random, itertools
sys.path.insert(0, os.path.join(os.path.dirname(os.path.abspath(__file__)), '..', 'engine'))
sys.path.insert(0, os.path.dirname(os.path.abspath(__file__)))
import z3
from symgo.driver import *
from symgo import runner
from symgo.runner import jsonable
from symgo.interp import Inconclusive
import specs

ID = 'C01'
PKG = 'version'
V = MOD + '/version.'
ROOTS = [V + n for n in ('verrevcmp', 'VerifC01Rev', 'VerifSpecCmp', 'VerifCompare', 'VerifC01Compare', 'VerifC01Less', 'VerifLess', 'VerifC01Parsed')]
ALPH = b'ABCDEFGHIJKLMNOPQRSTUVWXYZabcdefghijklmnopqrstuvwxyz0123456789.+~:-'
DIGITS_DOT = b'0123456789.~a'
BOUNDS = {'quick': dict(N=5, Nu=2, Nr=1), 'thorough': dict(N=6, Nu=3, Nr=2)}
JOB_TIMEOUT_S = {'quick': 900, 'thorough': 7200}     # rev_5_5 takes 75 s of CPU on the unchanged tree; a table-driven rewrite of order() took 4x that
META = dict(
    functions_encoded=['version.order', 'version.cisdigit', 'version.cisalpha', 'version.verrevcmp', 'version.Compare',
                       'version.Slice.Len', 'version.Slice.Less', 'version.Parse/parseInto (concrete instances only)'],
    stubs=[],
    bounds={'quick': 'verrevcmp: all pairs of strings over [A-Za-z0-9.+~:-] with |a|,|b| <= 5, plus shared 3-6 character contexts (1.0~rc, 2.10+b, 0.7a-, 1~~) followed by symbolic tails of up to 2 characters over the whole alphabet, plus digit runs beyond 64 bits: a 19-, 20- or 40-digit concrete string shared as prefix (or suffix) with symbolic tails (heads) of up to 2 characters over [0-9.~a]; Compare/Less: any 64-bit epochs, upstream <= 2, revision <= 1 bytes per side',
            'thorough': 'verrevcmp: |a|,|b| <= 6 (plus the long-digit-run families); Compare/Less: any 64-bit epochs, upstream <= 3, revision <= 2'},
    outside_claim=['strings longer than the bound', 'characters outside [A-Za-z0-9.+~:-] (the parser admits no others)'],
    assumptions=['oracle: the Policy 5.6.12 / dpkg verrevcmp algorithm written as SMT terms (checks/specs.py, formulation S2) and, for replay, as Go (harness specCmp); the two are compared on the validation inputs'])


def jobs(tier):
    b = BOUNDS[tier]
    js = []
    N = b['N']
    for la in range(N + 1):
        for lb in range(N + 1):
            js.append(dict(name='rev_%d_%d' % (la, lb), kind='rev', la=la, lb=lb))
    for (ua, ra, ub, rb) in itertools.product(range(b['Nu'] + 1), range(b['Nr'] + 1), range(b['Nu'] + 1), range(b['Nr'] + 1)):
        js.append(dict(name='cmp_%d_%d_%d_%d' % (ua, ra, ub, rb), kind='cmp', lens=(ua, ra, ub, rb)))
    # digit runs far beyond 64 bits ("no limit on magnitude"): long concrete digit strings shared as prefix or as
    # suffix, with symbolic heads / tails
    for fixed in (LONG if tier == 'thorough' else LONG[1:3]):
        for la in range(0, 3):
            for lb in range(0, 3):
                js.append(dict(name='long_pre_%s_%d_%d' % (fixed[:6].decode() + str(len(fixed)), la, lb), kind='long', fixed=fixed, where='prefix', la=la, lb=lb))
                if la and lb and (tier == 'thorough' or la + lb <= 3):
                    js.append(dict(name='long_suf_%s_%d_%d' % (fixed[:6].decode() + str(len(fixed)), la, lb), kind='long', fixed=fixed, where='suffix', la=la, lb=lb))
    # longer strings with a shared concrete context and symbolic tails over the whole alphabet
    for fixed in CONTEXTS if tier == 'thorough' else CONTEXTS[:4]:
        for la in range(0, 3):
            for lb in range(la, 3):
                js.append(dict(name='ctx_%s_%d_%d' % (fixed.decode().replace('~', 't').replace(':', 'c').replace('+', 'p'), la, lb), kind='long', fixed=fixed, where='prefix', la=la, lb=lb, alph='full'))
    js.append(dict(name='canary_2_2', kind='canary', la=2, lb=2))
    js.sort(key=lambda j: -(j.get('la', 0) + j.get('lb', 0) + sum(j.get('lens', ())) + (4 if j['kind'] == 'long' else 0)))
    return js


LONG = [b'9' * 19, b'9' * 20, b'1844674407370955161', b'0' * 19, b'9' * 40]
CONTEXTS = [b'1.0~rc', b'2.10+b', b'0.7a-', b'1~~', b'3:1.02.', b'10.010', b'a.+~-', b'1.0~~~']


def run_job(env, job):
    # Regime: every obligation is first decided in the enumerating regime (one path per outcome of the symbolic
    # branches, single-byte conditions settled by the domain tracker) - measured faster than the merged regime on this
    # code (rev_4_4: 14 s against 60 s) and indifferent to how the loops are written; if the enumeration meets an
    # instruction it cannot fork on, the merged regime is used instead.
    if 'enum' not in job and job['kind'] != 'canary':
        try:
            r = run_job(env, dict(job, enum=True))
            r['samples'][0]['regime'] = 'enumerating'
            return r
        except Unsupported as e:
            r = run_job(env, dict(job, enum=False))
            r['samples'][0]['regime'] = 'merged (enumerating regime: %s)' % str(e)[:200]
            return r
    if job['kind'] == 'canary':
        # vacuity guard: against a deliberately wrong oracle ('~' weighted like other punctuation) the same query
        # must come back sat - otherwise the harness or the assumptions make the obligation vacuous
        specs.CANARY = True
        try:
            r = run_job(env, dict(job, kind='rev', enum=True))
        finally:
            specs.CANARY = False
        if not r['cex']:
            raise Inconclusive('vacuity: the canary oracle was not refuted')
        return dict(status='ok', cex=[], obligations=1, samples=[dict(obligation='canary: verrevcmp vs an oracle with a wrong weight for ~ must be refuted', result='sat as required, e.g. %r' % (jsonable(r['cex'][0]['args']),))], stats=r['stats'])
    if job['kind'] in ('rev', 'long'):
        la, lb = job['la'], job['lb']
        a, b = symstr('a', la), symstr('b', lb)
        sa, sb = a, b
        if job['kind'] == 'long':
            fx = mkstr(job['fixed'])
            a, b = (Str(fx + a), Str(fx + b)) if job['where'] == 'prefix' else (Str(a + fx), Str(b + fx))
        I, ctx = env.interp(merge=not job.get("enum"), unwind=4 * max(len(a), len(b)) + 8, timeout_ms=900000 if env.tier == "quick" else 3000000)
        for c in list(sa) + list(sb):
            ctx.assume(in_set(c, ALPH if (job['kind'] == 'rev' or job.get('alph') == 'full') else DIGITS_DOT))
        outs = I.call(V + 'verrevcmp', [a, b], I.new_state())
        spec = specs.dpkg_cmp(a, b)
        bad = []
        for o in outs:
            g = mk_and(o.st.guard)
            if o.kind == 'ret':
                v = o.val
                sg = specs.sign8(tobv(v, 64))
                bad.append(mk_and([g, sg != spec]))
            else:
                bad.append(g)
        m = ctx.check([mk_or(bad)])
        cex = []
        cross = None
        if m is None and job['kind'] == 'rev' and not specs.CANARY and (env.tier == 'thorough' or la + lb <= 4) and la + lb <= 8:
            # the same verification condition re-decided by z3 4.8.12 and cvc5 (both must say unsat as well)
            from symgo.interp import cross_check
            cross = cross_check(ctx, [mk_or(bad)], 'c01_%d_%d' % (la, lb), timeout_s=120 if env.tier == 'quick' else 900)
            wrong = {k: v for k, v in cross.items() if v not in ('unsat', 'timeout', 'not installed')}
            if wrong:
                raise Inconclusive('solvers disagree on the verification condition of rev_%d_%d: %r' % (la, lb, cross))
        if m is not None:
            cex.append(dict(func='VerifC01Rev', args=[model_bytes(m, a), model_bytes(m, b)], kind='ret', code=1))
        return dict(status='viol' if cex else 'ok', cex=cex, obligations=len(outs),
                    samples=[dict(obligation='forall a in S^%d, b in S^%d%s: sign(verrevcmp(a,b)) == dpkg_spec(a,b), no panic, loops within %d iterations' % (la, lb, (' around the shared %s %r' % (job['where'], job['fixed'].decode())) if job['kind'] == 'long' else '', I.unwind), result='sat (counterexample)' if cex else 'unsat', cross_checked=cross)],
                    stats=dict(I.stats, **ctx.stats, solver_time=ctx.solver_time))
    ua, ra, ub, rb = job['lens']
    I, ctx = env.interp(merge=not job.get('enum'), unwind=4 * max(job['lens']) + 8, timeout_ms=900000 if env.tier == "quick" else 3000000)
    sa, sra, sb, srb = symstr('ua', ua), symstr('ra', ra), symstr('ub', ub), symstr('rb', rb)
    for c in list(sa) + list(sra) + list(sb) + list(srb):
        ctx.assume(in_set(c, ALPH))
    ea, eb = z3.BitVec('ea', 64), z3.BitVec('eb', 64)
    spec = specs.version_cmp(ea, sa, sra, eb, sb, srb)
    cex = []
    nobl = 0
    for fn, chk in (('VerifCompare', 'VerifC01Compare'), ('VerifLess', 'VerifC01Less')):
        outs = I.call(V + fn, [ea, sa, sra, eb, sb, srb], I.new_state())
        bad = []
        for o in outs:
            g = mk_and(o.st.guard)
            nobl += 1
            if o.kind == 'ret':
                if fn == 'VerifCompare':
                    bad.append(mk_and([g, specs.sign8(tobv(o.val, 64)) != spec]))
                else:
                    bad.append(mk_and([g, tobool(o.val) != (spec == specs.M1)]))
            else:
                bad.append(g)
        m = ctx.check([mk_or(bad)])
        if m is not None:
            cex.append(dict(func=chk, args=[model_int(m, ea, False), model_bytes(m, sa), model_bytes(m, sra), model_int(m, eb, False), model_bytes(m, sb), model_bytes(m, srb)], kind='ret', code=1))
    return dict(status='viol' if cex else 'ok', cex=cex, obligations=nobl,
                samples=[dict(obligation='forall epochs in uint64, |upstream|=(%d,%d), |revision|=(%d,%d): sign(Compare)==spec and Less==(spec<0)' % (ua, ub, ra, rb), result='sat' if cex else 'unsat')],
                stats=dict(I.stats, **ctx.stats, solver_time=ctx.solver_time))


STATEMENT = [(b'1.0~rc1', b'1.0', -1), (b'1.0', b'1.0+b1', -1), (b'1.0', b'1.0-0', 0), (b'1.0-0', b'1.0', 0), (b'1:0', b'2', 1),
             (b'1.0~rc1', b'1.0+b1', -1), (b'0:1', b'1', 0), (b'1.a', b'1.+', -1), (b'1~', b'1', -1), (b'1~~', b'1~', -1),
             (b'1.010', b'1.9', 1), (b'1.00000000000000000000000000000000000000009', b'1.9', 0),
             (b'99999999999999999999999999999999', b'99999999999999999999999999999998', 1)]


def validation_calls(env, seed):
    rnd = random.Random(seed)
    calls = []
    for a, b, w in STATEMENT:
        calls.append(('VerifC01Parsed', [a, b, w]))
    pool = [b'1.0', b'1.0~rc1', b'1.0+b1', b'09', b'9', b'a', b'~', b'', b'1.2.3', b'1:2', b'0', b'00', b'a0', b'a00b', b'1-1', b'+', b'Z', b'z~']
    for _ in range(40):
        n = rnd.randint(0, 6)
        pool.append(bytes(rnd.choice(ALPH) for _ in range(n)))
    for _ in range(60):
        a, b = rnd.choice(pool), rnd.choice(pool)
        calls.append(('VerifC01Rev', [a, b]))
        calls.append(('VerifSpecCmp', [a, b]))
    for _ in range(20):
        calls.append(('VerifC01Compare', [rnd.choice([0, 1, 2, 2**63, 2**64 - 1]), rnd.choice(pool), rnd.choice(pool), rnd.choice([0, 1, 2**64 - 1]), rnd.choice(pool), rnd.choice(pool)]))
    # the SMT formulation of the oracle against the Go formulation, on the same inputs
    nat = native_run(PKG, [c for c in calls if c[0] == 'VerifSpecCmp'])
    for (f, (a, b)), r in zip([c for c in calls if c[0] == 'VerifSpecCmp'], nat):
        t = z3.simplify(specs.dpkg_cmp(tuple(a), tuple(b)))
        if t.as_signed_long() != r['ret'][0]:
            print('[C01] ENGINE-MISMATCH: SMT oracle %d vs Go oracle %d on %r %r' % (t.as_signed_long(), r['ret'][0], a, b))
            sys.exit(3)
    return calls


if __name__ == '__main__':
    runner.main(sys.modules[__name__])
