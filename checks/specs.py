# Specifications written directly as SMT terms (independent of the Go code).
import z3
from z3 import If, And, Or, Not, ULT, UGT, ULE, UGE, BitVecVal, ZeroExt


def bv8(x):
    return x if isinstance(x, z3.ExprRef) else BitVecVal(x, 8)


def is_digit(c):
    return And(UGE(c, BitVecVal(48, 8)), ULE(c, BitVecVal(57, 8)))


def is_alpha(c):
    return Or(And(UGE(c, BitVecVal(97, 8)), ULE(c, BitVecVal(122, 8))), And(UGE(c, BitVecVal(65, 8)), ULE(c, BitVecVal(90, 8))))


def weight(c):
    """Policy 5.6.12 / dpkg order(): '~' < end-of-string(0) = digit(0) < letters (ASCII) < everything else (ASCII+256); 16-bit signed"""
    c16 = ZeroExt(8, c)
    return If(is_digit(c), BitVecVal(0, 16),
              If(is_alpha(c), c16,
                 If(And(c == BitVecVal(126, 8), not CANARY), BitVecVal(-1, 16),
                    If(c == BitVecVal(0, 8), BitVecVal(0, 16), c16 + BitVecVal(256, 16)))))


M1, Z0, P1 = BitVecVal(-1, 8), BitVecVal(0, 8), BitVecVal(1, 8)


CANARY = False      # when set, '~' gets the weight of an ordinary punctuation character: a deliberately wrong oracle


def dpkg_cmp(a, b):
    """sign of the dpkg comparison of strings a and b (tuples of 8-bit terms) as an 8-bit term in {-1,0,1};
    formulation S2: non-digit runs by weight, digit runs: strip zeros, longer wins, else first difference."""
    a = [bv8(x) for x in a]
    b = [bv8(x) for x in b]
    la, lb = len(a), len(b)
    memo = {}

    def cmp_(i, j):
        i, j = min(i, la), min(j, lb)
        k = ('c', i, j)
        if k in memo:
            return memo[k]
        if i >= la and j >= lb:
            r = Z0
        else:
            nda = Not(is_digit(a[i])) if i < la else False
            ndb = Not(is_digit(b[j])) if j < lb else False
            wa = weight(a[i]) if i < la else BitVecVal(0, 16)
            wb = weight(b[j]) if j < lb else BitVecVal(0, 16)
            nd = If(wa < wb, M1, If(wa > wb, P1, cmp_(i + 1, j + 1)))
            r = If(Or(nda, ndb), nd, skipa(i, j, False))
        memo[k] = r
        return r

    def skipa(i, j, moved):
        k = ('a', i, j, moved)
        if k in memo:
            return memo[k]
        if i < la:
            r = If(a[i] == BitVecVal(48, 8), skipa(i + 1, j, True), skipb(i, j, moved))
        else:
            r = skipb(i, j, moved)
        memo[k] = r
        return r

    def skipb(i, j, moved):
        k = ('b', i, j, moved)
        if k in memo:
            return memo[k]
        if j < lb:
            r = If(b[j] == BitVecVal(48, 8), skipb(i, j + 1, True), run(i, j, 0, moved))
        else:
            r = run(i, j, 0, moved)
        memo[k] = r
        return r

    def run(i, j, fd, moved):
        k = ('r', i, j, fd, moved)
        if k in memo:
            return memo[k]
        da = is_digit(a[i]) if i < la else False
        db = is_digit(b[j]) if j < lb else False
        if fd != 0:
            rest = BitVecVal(fd, 8)
        elif not moved:
            rest = Z0        # not reachable: the digit phase is only entered when a digit is present
        else:
            rest = cmp_(i, j)
        tail = If(da, P1, If(db, M1, rest)) if (da is not False or db is not False) else rest
        if da is not False and db is not False:
            if fd != 0:
                both = run(i + 1, j + 1, fd, True)
            else:
                both = If(ULT(a[i], b[j]), run(i + 1, j + 1, -1, True), If(UGT(a[i], b[j]), run(i + 1, j + 1, 1, True), run(i + 1, j + 1, 0, True)))
            r = If(And(da, db), both, tail)
        else:
            r = tail
        memo[k] = r
        return r
    return cmp_(0, 0)


def sign8(x):
    """sign of a 64-bit signed term as an 8-bit term"""
    return If(x < 0, M1, If(x > 0, P1, Z0))


def version_cmp(ea, ua, ra, eb, ub, rb):
    """spec of Compare: epochs numerically (unsigned 64-bit), then upstream, then revision"""
    cu = dpkg_cmp(ua, ub)
    cr = dpkg_cmp(ra, rb)
    rest = If(cu != Z0, cu, cr)
    if isinstance(ea, int) and isinstance(eb, int):
        return P1 if ea > eb else (M1 if ea < eb else rest)
    return If(UGT(ea, eb), P1, If(ULT(ea, eb), M1, rest))
