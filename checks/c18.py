#!/usr/bin/env python3
# C18 - text parsers are total, deterministic and safe to call concurrently.
import os, sys, random, itertools
sys.path.insert(0, os.path.dirname(os.path.abspath(__file__)))
from common import *
import c10
import c17

ID = 'C18'
PKG = 'control'
PKG_OF = {'VerifC18Version': 'version', 'VerifC18Dep': 'dependency', 'VerifC18Arch': 'dependency', 'VerifC18Changelog': 'changelog', 'VerifC18Race': 'control', 'VerifC17Malformed': 'changelog'}
REPLAY_TIMEOUT_MS = 120000
ROOTS = [MOD + '/version.VerifC18Version', MOD + '/dependency.VerifC18Dep', MOD + '/dependency.VerifC18Arch', MOD + '/control.VerifC18Para',
         MOD + '/control.VerifC18Typed', MOD + '/changelog.VerifC18Changelog', MOD + '/changelog.VerifC17Malformed']
BOUNDS = {'quick': dict(version=5, arch=5, dep=4, para=5, changelog=4, typed=3), 'thorough': dict(version=6, arch=6, dep=5, para=6, changelog=6, typed=4)}
CLS = {'version': [b' \t\n', b'0123456789', b':', b'-', b'.+~', b'abcXYZ'],
       'arch': [b'-', b' \t\n', b'a', b'n', b'y', b'l'],
       'dep': [b' \t\r\n', b',', b'|', b':', b'(', b')', b'[', b']', b'<', b'>', b'!', b'$', b'{', b'}', b'=', b'-'],
       'para': [b'\n', b'\r', b' \t', b'#', b':', b'.'],
       'changelog': [b'\n', b' ', b'(', b')', b';', b'=', b',', b'-']}
ENTRY = {'version': ('version', 'VerifC18Version'), 'arch': ('dependency', 'VerifC18Arch'), 'dep': ('dependency', 'VerifC18Dep'),
         'para': ('control', 'VerifC18Para'), 'changelog': ('changelog', 'VerifC18Changelog')}
META = dict(
    functions_encoded=['version.Parse', '(*Version).UnmarshalText', 'dependency.Parse', 'ParseArch', 'ParseArchitectures', 'control.NewParagraphReader', '(*ParagraphReader).Next',
                       'ParseDsc', 'ParseChanges', 'ParseControl', 'ParseBinaryIndex', 'ParseSourceIndex', 'changelog.Parse', 'changelog.ParseOne'],
    stubs=['as in C03, C05, C07, C10, C17'],
    bounds={'quick': 'every byte string (all 256 values) of length <= 5 into version.Parse, <= 5 into ParseArch/ParseArchitectures, <= 4 into dependency.Parse, <= 5 into the paragraph reader, <= 4 into changelog.Parse; typed documents: a valid .dsc/.changes/control/Packages/Sources template with one field value (Version, Architecture, Build-Depends, Files, Binary, Installed-Size) replaced by every byte string of length <= 3; each template with a field name repeated in upper, lower and swapped case (exact spelling present or absent); each template with every Go field name of its target struct as an additional field name; malformed whole changelog entries',
            'thorough': 'one more byte everywhere (changelog 6)'},
    outside_claim=['inputs above the bound (the statement says 64 KiB)', 'the race detector itself: concurrency safety is decided by non-interference - on every explored path no package-level variable is written - from which independence of concurrent calls on disjoint inputs follows', 'non-interference on paths not reachable within the bound'],
    assumptions=['determinism: each harness calls the entry point twice on the same input and compares the outcomes; the typed-document harness also compares the decoded fields of the two calls; map iteration (none in these parsers on the unchanged tree) is explored in every rotation (chosen per map object, independently in the two calls)'])


def jobs(tier):
    b = BOUNDS[tier]
    js = []
    for what, N in b.items():
        if what == 'typed':
            continue
        used = b''.join(CLS[what])
        cls = CLS[what] + [bytes(x for x in range(256) if x not in used)]
        for n in range(N + 1):
            depth = 0 if n <= 2 else (1 if n <= 4 else 2)
            for part in itertools.product(range(len(cls)), repeat=depth):
                js.append(dict(name='%s_%d_%s' % (what, n, '_'.join(map(str, part))), kind='raw', what=what, n=n, part=list(part)))
    for kind, fields in ((0, [b'Version', b'Architecture', b'Build-Depends', b'Files', b'Binary']), (1, [b'Version', b'Files', b'Closes']), (2, [b'Architecture', b'Depends', b'Essential', b'Conffiles']),
                         (3, [b'Installed-Size', b'Version', b'Architecture', b'Tags']), (4, [b'Version', b'Files', b'Architecture'])):
        for f in fields:
            for n in range(b['typed'] + 1):
                js.append(dict(name='typed_%d_%s_%d' % (kind, f.decode(), n), kind='typed', k=kind, field=f, n=n))
    # field names in other spellings: each kind's template with one key given twice more in two different capitalisations
    # (and the exact spelling kept or dropped), each with its own value
    for kind, fields in ((0, [b'Source', b'Binary']), (1, [b'Source', b'Closes']), (2, [b'Maintainer', b'Depends']), (3, [b'Package', b'Tags']), (4, [b'Package', b'Binary'])):
        for f in fields:
            for keep in (False, True):
                js.append(dict(name='case_%d_%s_%d' % (kind, f.decode(), keep), kind='case', k=kind, field=f, keep=keep, n=0))
    # every Go field name of the target structs used as a field name of the document (a field without a `control:` tag
    # is looked up under its Go name; unexported fields must be passed over, not written to)
    for kind in range(5):
        js.append(dict(name='fieldnames_%d' % kind, kind='fieldnames', k=kind, n=0))
    # whole changelog entries that are malformed in one place (the raw inputs above are too short to reach the later
    # stages of the entry parser): value or error, never both - shared with C17
    for what in ('indent', 'nohdr', 'baddate', 'nodate'):
        for where, si in ((0, 0), (1, 6)):
            js.append(dict(name='changelog_%s_%d' % (what, where), kind='c17bad', what=what, where=where, shape=si, L=1, n=0))
    js.sort(key=lambda j: -j['n'])
    return js


TEMPLATES = {0: b'Format: 1.0\nSource: s\nBinary: a, b\nArchitecture: any\nVersion: 1-1\nMaintainer: M <m@x>\nBuild-Depends: x\nFiles:\n aa 1 s.debian.tar.xz\n',
             1: b'Format: 1.8\nSource: s\nBinary: a\nArchitecture: all\nVersion: 1-1\nDistribution: u\nMaintainer: M <m@x>\nCloses: 1 2\nFiles:\n aa 1 misc optional s.dsc\n',
             2: b'Source: s\nMaintainer: M <m@x>\n\nPackage: p\nArchitecture: any\nEssential: yes\nDepends: x\nConffiles:\n /etc/x aa\n',
             3: b'Package: p\nVersion: 1-1\nInstalled-Size: 5\nArchitecture: all\nTags: a, b\n',
             4: b'Package: p\nBinary: a\nVersion: 1-1\nArchitecture: any\nFiles:\n aa 1 s.dsc\n'}


def run_job(env, job):
    if job['kind'] == 'c17bad':
        r = c17.run_job(env, dict(job, kind='bad'))
    elif job['kind'] == 'raw':
        what, n = job['what'], job['n']
        pkg, fn = ENTRY[what]
        s = symstr('s', n)
        used = b''.join(CLS[what])
        cls = CLS[what] + [bytes(x for x in range(256) if x not in used)]
        assume = [in_set(s[pos], cls[ci]) for pos, ci in enumerate(job['part'])]
        r = run_harness(env, pkg, fn, [s], assume, unwind=4 * n + 60, sample='%s: every byte string of length %d, leading classes %r' % (fn, n, job['part']))
    elif job['kind'] == 'fieldnames':
        tmpl = TEMPLATES[job['k']]
        T = MOD + '/control.'
        types = {0: [T + 'DSC'], 1: [T + 'Changes'], 2: [T + 'SourceParagraph', T + 'BinaryParagraph'], 3: [T + 'BinaryIndex'], 4: [T + 'SourceIndex']}[job['k']]
        paras = tmpl.split(b'\n\n')
        v = symstr('v', 1)
        extra = []
        names = []
        for i, t in enumerate(types):
            present = {l.split(b':')[0] for l in paras[min(i, len(paras) - 1)].split(b'\n') if l[:1] not in (b' ', b'')}
            add = ()
            for f in env.prog.fields(t):
                nm = f['name'].encode()
                if nm in present or nm == b'Paragraph':
                    continue
                names.append(f['name'])
                add += tuple(nm) + (58, 32) + tuple(v) + (10,)
            extra.append(add)
        out = ()
        for i, para in enumerate(paras):
            body = tuple(para.rstrip(b'\n')) + (10,)
            out += (() if i == 0 else (10,)) + body + (extra[i] if i < len(extra) else ())
        r = run_harness(env, 'control', 'VerifC18Typed', [job['k'], Str(out)], [in_set(v[0], b'a1 ')], unwind=600, timeout_ms=300000, interp_kw=dict(map_orders='rot1'),
                        sample='typed document kind %d with every Go field name of %s as an additional field name (%d names, unexported ones included)' % (job['k'], ', '.join(t.rsplit('.', 1)[-1] for t in types), len(names)))
    elif job['kind'] == 'case':
        tmpl = TEMPLATES[job['k']]
        f = job['field']
        out = ()
        va, vb = symstr('va', 1), symstr('vb', 1)
        assume = [in_set(va[0], b'abc'), in_set(vb[0], b'abc')]
        lines = tmpl.split(b'\n')
        for i, l in enumerate(lines):
            if l.startswith(f + b':'):
                if job['keep']:
                    out += tuple(l) + (10,)
                    if i + 1 < len(lines) and lines[i + 1].startswith(b' '):
                        continue
                out += tuple(f.upper()) + (58, 32) + tuple(va) + (10,) + tuple(f.lower()) + (58, 32) + tuple(vb) + (10,)
                out += tuple(f.swapcase()) + (58, 32) + tuple(vb) + tuple(va) + (10,)
            elif i < len(lines) - 1:
                out += tuple(l) + (10,)
        r = run_harness(env, 'control', 'VerifC18Typed', [job['k'], Str(out)], assume, unwind=400, timeout_ms=300000, interp_kw=dict(map_orders='rot1'),
                        sample='typed document kind %d with the key %s also spelled in upper, lower and swapped case (exact spelling %s), every rotation of the iteration order of every map (one per map and call)' % (job['k'], f.decode(), 'kept' if job['keep'] else 'absent'))
    else:
        tmpl = TEMPLATES[job['k']]
        v = symstr('v', job['n'])
        lines = tmpl.split(b'\n')
        out = ()
        done = False
        for i, l in enumerate(lines):
            if not done and l.startswith(job['field'] + b':'):
                out += tuple(job['field']) + (58, 32) + tuple(v) + (10,)
                done = True
                # drop the continuation lines of the replaced field
                continue
            if done and l.startswith(b' ') and lines[i - 1].startswith(job['field'] + b':'):
                continue
            if i < len(lines) - 1:
                out += tuple(l) + (10,)
        r = run_harness(env, 'control', 'VerifC18Typed', [job['k'], Str(out)], [], unwind=400, timeout_ms=300000, interp_kw=dict(map_orders='rot1'),
                        sample='typed document kind %d with the value of %s replaced by every byte string of length %d' % (job['k'], job['field'].decode(), job['n']))
    gw = [g for g in r.get('global_writes', ())]
    if gw:
        # non-interference: a store to a package-level variable on some explored path
        r['cex'].append(dict(func='VerifC18Race', args=[job['name'].encode()], kind='ret', code=99, msg='package-level variables written: %s' % ', '.join(gw)))
        r['status'] = 'viol'
    r['samples'][0]['package_level_stores'] = gw
    return r


def validation_calls(env, seed):
    rnd = random.Random(seed)
    calls = []
    for _ in range(15):
        s = bytes(rnd.choice(b'a1:-. ,|()[]<>${}\n#~') for _ in range(rnd.randint(0, 8)))
        calls += [('VerifC18Para', [s])]
    for k, t in TEMPLATES.items():
        calls.append(('VerifC18Typed', [k, t]))
    return calls


if __name__ == '__main__':
    runner.main(sys.modules[__name__])
