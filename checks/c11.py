#!/usr/bin/env python3
# C11 - clearsigned control data is accepted only with a valid keyring signature (plumbing level).
import os, sys, random, itertools
sys.path.insert(0, os.path.dirname(os.path.abspath(__file__)))
from common import *
from symgo import pgpmodel

ID = 'C11'
HDR_LEN_PROBE = b'-----BEGIN PGP SIGNED MESSAGE-----\nHash: SHA256\n\n'
PKG = 'control'
C = MOD + '/control.'
ROOTS = [C + 'VerifC11Signed', C + 'VerifC11Unsigned']
REPLAY_TIMEOUT_MS = 300000
TXT = bytes(x for x in range(0x21, 0x7f) if x not in b'-')
META = dict(
    functions_encoded=['control.NewParagraphReader (15-byte peek)', '(*ParagraphReader).decodeClearsig', '(*ParagraphReader).Signer', 'control.NewDecoder', '(*Decoder).Signer',
                       'the paragraph reader', 'bufio / bytes.Buffer / bytes.Reader / io.ReadAll from SSA'],
    stubs=['idealised OpenPGP (engine/symgo/pgpmodel.py): abstract keys; a signature is the record (key, signed bytes); CheckDetachedSignature drains both readers and succeeds iff the key is in the keyring and the bytes are exactly the signed ones; clearsign.Decode parses an abstract armour with the structure of the real one',
           'the harness helpers verifKey / verifClearsign are real (RSA keys, clearsign.Encode) in native replays and modelled in the symbolic run'],
    bounds={'quick': 'a signed text of one or two "K: v" fields with symbolic names and values (every byte value but newline inside a value, carriage return included), signed by one of two keys, read with each of five keyrings (empty literal, nil list, either key, both), through NewParagraphReader and NewDecoder; damage: none, substitution / deletion / insertion of one symbolic byte at every position of the document, truncation at every position, foreign text appended or prepended; an accepted document read again with an empty keyring; a damaged signature packet may also be answered with errors.UnsupportedError; plain input of up to 4 arbitrary bytes never reports a signer',
            'thorough': 'texts with 3 fields; damage at every position with two-byte insertions'},
    outside_claim=['the cryptographic strength of OpenPGP (a tampered text makes verification fail: idealised here)', 'a nil keyring pointer (documented to switch verification off)',
                   'the exact canonicalisation clearsign applies to the signed text (trailing blanks, line endings): the model hands the signed bytes on unchanged'],
    assumptions=['idealised signatures: verification succeeds exactly for the signed bytes and a key of the keyring'])


def texts(tier):
    out = []
    for nf in ((1, 2) if tier == 'quick' else (1, 2, 3)):
        out.append(nf)
    return out


def jobs(tier):
    js = []
    for nf in texts(tier):
        for signer in (0, 1):
            for keyring in (1, 2, 3, 4, 5):
                for via in (False, True):
                    js.append(dict(name='clean_%d_%d_%d_%d' % (nf, signer, keyring, via), kind='signed', nf=nf, signer=signer, keyring=keyring, tamper=0, via=via))
    for nf in (1,) if tier == 'quick' else (1, 2):
        for tamper in (1, 2, 3, 4):
            for chunk in range(0, 8):
                js.append(dict(name='tamper%d_%d_c%d' % (tamper, nf, chunk), kind='signed', nf=nf, signer=0, keyring=4 if tamper % 2 else 2, tamper=tamper, via=False, chunk=chunk))
        for tamper in (5, 6):
            for keyring in (1, 2, 4):
                js.append(dict(name='tamper%d_%d_k%d' % (tamper, nf, keyring), kind='signed', nf=nf, signer=0, keyring=keyring, tamper=tamper, via=(keyring == 4)))
    for n in range(0, 5):
        js.append(dict(name='unsigned_%d' % n, kind='unsigned', n=n))
    return js


def mk_text(nf, assume):
    t = ()
    for i in range(nf):
        k = symstr('k%d' % i, 1)
        v = symstr('v%d' % i, 3 if i == 0 else 2)
        assume.append(in_set(k[0], [b'ABCDEFGH', b'IJKLMNOP', b'QRSTUVWX'][i]))
        assume += [z3.And(c != 10) for c in v]
        t += tuple(k) + (58, 32) + tuple(v) + (10,)
    return Str(t)


def run_job(env, job):
    if job['kind'] == 'unsigned':
        rs = []
        s = symstr('s', job['n'])
        for kr in (1, 2):
            rs.append(run_harness(env, PKG, 'VerifC11Unsigned', [s, kr], [], unwind=200, sample='plain input: every byte string of length %d, keyring mode %d' % (job['n'], kr)))
        rs.append(run_harness(env, PKG, 'VerifC11Unsigned', [Str(tuple(b'-----BEGIN PGP') + tuple(s)), 2], [], unwind=200, sample='a 14-byte near-miss of the armour marker followed by %d arbitrary bytes' % job['n']))
        return merge_results(rs)
    assume = []
    text = mk_text(job['nf'], assume)
    doclen = len(pgpmodel.HDR) + len(text) + len(pgpmodel.SIGB) + 8 + len(pgpmodel.SIGE)
    if job['tamper'] in (1, 2, 3, 4):
        positions = [p for p in range(doclen + (1 if job['tamper'] == 3 else 0)) if p % 8 == job['chunk']]
        rs = []
        for pos in positions:
            nb = z3.BitVec('nb', 8)
            rs.append(run_harness(env, PKG, 'VerifC11Signed', [text, job['signer'], job['keyring'], job['tamper'], pos, nb, job['via']], assume, unwind=400, unsigned=(5,),
                                  sample='signed text of %d fields, damage kind %d at offset %d with a symbolic byte, keyring %d' % (job['nf'], job['tamper'], pos, job['keyring'])))
        return merge_results(rs)
    return run_harness(env, PKG, 'VerifC11Signed', [text, job['signer'], job['keyring'], job['tamper'], 0, 0, job['via']], assume, unwind=400, unsigned=(5,),
                       sample='signed text of %d fields, signer %d, keyring mode %d, damage kind %d, via %s' % (job['nf'], job['signer'], job['keyring'], job['tamper'], 'NewDecoder' if job['via'] else 'NewParagraphReader'))


def replay_args(c):
    # byte positions inside the abstract signature block are not those of the real armour: for a substitution there the
    # native replay searches the real signature block for a substitution with the same kind of verdict
    a = list(c['args'])
    if c['func'] == 'VerifC11Signed' and a[3] == 1 and a[4] >= len(HDR_LEN_PROBE) + len(bytes(a[0])):
        a[4] = -1
    return a


def validation_calls(env, seed):
    # the native side runs real OpenPGP, the interpreter the idealised model: both must accept / refuse alike
    calls = [('VerifC11Signed', [b'A: b\n', 0, 2, 0, 0, 0, False]), ('VerifC11Signed', [b'A: b\nC: d\n', 1, 4, 0, 0, 0, True]), ('VerifC11Signed', [b'A: b\n', 0, 3, 0, 0, 0, False]),
             ('VerifC11Signed', [b'A: b\n', 0, 1, 0, 0, 0, False]), ('VerifC11Signed', [b'A: b\n', 0, 2, 5, 0, 0, False]), ('VerifC11Signed', [b'A: b\n', 0, 2, 6, 0, 0, False]),
             ('VerifC11Unsigned', [b'A: b\n', 2]), ('VerifC11Unsigned', [b'', 1]), ('VerifC11Signed', [b'A: b\n', 0, 5, 0, 0, 0, False])]
    return calls


if __name__ == '__main__':
    runner.main(sys.modules[__name__])
