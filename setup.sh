#!/bin/sh
# build the exporter from files on disk only (offline)
set -e
cd "$(dirname "$0")"
export GOFLAGS=-mod=mod GOPROXY=off GOSUMDB=off GOTOOLCHAIN=local
mkdir -p engine/bin .cache evidence
(cd engine/ssaexport && go build -o ../bin/ssaexport .)
(cd tools/unitables && go run . ../../engine/symgo/unitables.json)
python3-vt -c "import z3; print('z3', z3.get_version_string())"
